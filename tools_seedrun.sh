#!/bin/sh
# usage: tools_seedrun.sh <patch.diff> <Cnn> [more check args]: run one check against a scratch copy of /repo with the patch applied
set -e
P=$(readlink -f "$1"); shift
D=$(mktemp -d /var/tmp/sd-XXXX)
trap 'rm -rf "$D"' EXIT
git -C /repo archive HEAD | tar -x -C "$D"
(cd "$D" && patch -p1 -s < "$P")
cd /verif
VERIF_REPO="$D" VERIF_EVIDENCE_DIR="$D/ev" ./check "$@" 2>&1 | tail -6 | cut -c1-260

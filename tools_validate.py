#!/usr/bin/env python3
"""Development aid: validate MANIFEST.json and evidence files against the schemas
(run with python3-vt, which has jsonschema)."""
import json, sys, glob
import jsonschema
ok = True
m = json.load(open('/verif/MANIFEST.json'))
jsonschema.validate(m, json.load(open('/root/.vp/MANIFEST.schema.json')))
props = [json.loads(l)['id'] for l in open('/verif/properties.jsonl')]
claimed = [c['property_id'] for c in m['checks']]
na = [c['property_id'] for c in m.get('not_applicable', [])]
assert sorted(claimed + na) == sorted(props), (claimed, na)
es = json.load(open('/root/.vp/EVIDENCE.schema.json'))
for c in m['checks']:
    try:
        e = json.load(open(c['evidence_file']))
        jsonschema.validate(e, es)
        assert e['level'] == c['level_claimed']['category']
        print('ok', c['property_id'], e['tier'], e['coverage']['evaluations'], e['coverage']['distinct_nontrivial'])
    except Exception as ex:
        ok = False
        print('BAD', c['property_id'], str(ex)[:300])
sys.exit(0 if ok else 1)

#!/bin/sh
# usage: tools_mutant.sh <patchfile|-e sedexpr file> -- <check args>   (development aid)
# Makes a scratch copy of /repo, applies the patch, runs ./check against it.
set -e
M=$(mktemp -d /var/tmp/mut-XXXX)
trap 'rm -rf "$M"' EXIT
mkdir -p "$M/src"
cp -r /repo/src/calmjs "$M/src/calmjs"
if [ "$1" = "-e" ]; then
  sed -i "$2" "$M/src/calmjs/parse/$3"; shift 3
  if cmp -s "$M/src/calmjs/parse/$3" "/repo/src/calmjs/parse/$3" 2>/dev/null; then echo "sed made no change"; fi
else
  (cd "$M" && patch -s -p1 < "$1"); shift
fi
[ "$1" = "--" ] && shift
cd /verif
VERIF_REPO="$M" ./check "$@" || echo "rc=$?"

#!/bin/sh
# Run once after a fresh restore: nothing is compiled or installed; the
# reference models' specification-derived self-tests are run.
HERE="$(cd "$(dirname "$0")" && pwd)"
cd "$HERE" || exit 2
PYTHONDONTWRITEBYTECODE=1 PYTHONPATH="$HERE" exec "${VERIF_PYTHON:-/venv/bin/python}" -m vk.selftest

#!/usr/bin/env python3
"""development aid: copy a verified round-14 seeded change from /tmp/seed14_out/<Cnn>{a,b} to /verif/seeded/<Cnn>{n,o}/
usage: import_seed14.py C07a C07b ..."""
import json, os, shutil, subprocess, sys
props = {json.loads(l)['id']: json.loads(l) for l in open('/verif/properties.jsonl')}
SUF = {'a': 'n', 'b': 'o'}
for name in sys.argv[1:]:
    pid, ab = name[:3], name[3:]
    src = '/tmp/seed14_out/%s' % name
    r = subprocess.run(['/tmp/seed_tools/verify14.sh', name], capture_output=True, text=True).stdout.strip()
    print(r)
    if 'passed' not in r or 'failed' in r or 'demo_with_change=1 demo_without=0' not in r:
        print('  NOT VERIFIED, skipped')
        continue
    sid = pid + SUF[ab]
    dst = '/verif/seeded/%s' % sid
    os.makedirs(dst, exist_ok=True)
    for f in ('patch.diff', 'demo.py', 'notes.md'):
        shutil.copy(os.path.join(src, f), os.path.join(dst, f))
    notes = open(os.path.join(src, 'notes.md')).read()
    meta = {'id': '%s-seed-14%s' % (pid, ab), 'property': pid, 'title': props[pid]['title'],
            'origin': 'fourteenth round: fresh sub-agent given only the property text, one-line mechanisms of all earlier '
                      'changes to avoid, and a private worktree of /repo (nothing else from /verif); two changes per agent',
            'needs_to_manifest': ' '.join(notes.split())[:600],
            'verified': 'in a fresh export of /repo HEAD: patch applied; the 797 repository tests (re-pointed at the tree) pass; '
                        'demo.py exits 1; without the patch demo.py exits 0 (' + r.split(': ', 1)[-1] + ')',
            'run_demo': '/venv/bin/python /verif/dev/run_in_tree.py <tree> seeded/%s/demo.py' % sid,
            'expect': 'caught'}
    json.dump(meta, open(os.path.join(dst, 'meta.json'), 'w'), indent=1)
    print('  ->', dst)

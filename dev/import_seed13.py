#!/usr/bin/env python3
"""development aid: copy a verified round-2 seeded change from /tmp/seed13_out/<id> to /verif/seeded/<id>b/"""
import json, os, shutil, subprocess, sys
props = {json.loads(l)['id']: json.loads(l) for l in open('/verif/properties.jsonl')}
for pid in sys.argv[1:]:
    src = '/tmp/seed13_out/%s' % pid
    r = subprocess.run(['/tmp/seed_tools/verify13.sh', pid], capture_output=True, text=True).stdout.strip()
    print(r)
    if 'passed' not in r or 'failed' in r or 'demo_with_change=1 demo_without=0' not in r:
        print('  NOT VERIFIED, skipped')
        continue
    dst = '/verif/seeded/%sm' % pid
    os.makedirs(dst, exist_ok=True)
    for f in ('patch.diff', 'demo.py', 'notes.md'):
        shutil.copy(os.path.join(src, f), os.path.join(dst, f))
    notes = open(os.path.join(src, 'notes.md')).read()
    meta = {'id': '%s-seed-13' % pid, 'property': pid, 'title': props[pid]['title'],
            'origin': 'thirteenth round: fresh sub-agent given only the property text, the mechanisms of all earlier changes to avoid, and a private clone of /repo (nothing from /verif)',
            'needs_to_manifest': ' '.join(notes.split())[:600],
            'verified': 'in a fresh clone of /repo HEAD: git apply patch.diff; the 797 repository tests (re-pointed at the clone) pass; demo.py exits 1; git apply -R; demo.py exits 0',
            'run_demo': '/venv/bin/python /verif/dev/run_in_tree.py <tree> seeded/%sm/demo.py' % pid,
            'expect': 'caught'}
    json.dump(meta, open(os.path.join(dst, 'meta.json'), 'w'), indent=1)

// Development aid only (node is not on the brief's tool list; no verdict depends on it).
// usage: node --expose-internals acorn_canon.js in.json out.json
const acorn = require('internal/deps/acorn/acorn/dist/acorn');
const fs = require('fs');
const srcs = JSON.parse(fs.readFileSync(process.argv[2], 'utf8'));
function N(kind, attrs) { const keys = Object.keys(attrs).sort(); return [kind, keys.map(k => [k, attrs[k]])]; }
function list(a, src) { return a.map(x => conv(x, src)); }
function key(k, src) {
  if (k.type === 'Identifier') return N('PropIdentifier', {value: k.name});
  return conv(k, src);
}
function conv(n, src) {
  if (n === null || n === undefined) return null;
  switch (n.type) {
    case 'Program': return N('ES5Program', {children: list(n.body, src)});
    case 'ExpressionStatement': return N('ExprStatement', {expr: conv(n.expression, src)});
    case 'BlockStatement': return N('Block', {children: list(n.body, src)});
    case 'EmptyStatement': return N('EmptyStatement', {value: ';'});
    case 'VariableDeclaration':
      return N('VarStatement', {children: n.declarations.map(d => N('VarDecl', {identifier: conv(d.id, src), initializer: conv(d.init, src)}))});
    case 'IfStatement': return N('If', {predicate: conv(n.test, src), consequent: conv(n.consequent, src), alternative: conv(n.alternate, src)});
    case 'DoWhileStatement': return N('DoWhile', {predicate: conv(n.test, src), statement: conv(n.body, src)});
    case 'WhileStatement': return N('While', {predicate: conv(n.test, src), statement: conv(n.body, src)});
    case 'ForStatement': {
      let init;
      if (n.init === null) init = N('EmptyStatement', {value: ';'});
      else if (n.init.type === 'VariableDeclaration') init = conv(n.init, src);
      else init = N('ExprStatement', {expr: conv(n.init, src)});
      const cond = n.test === null ? N('EmptyStatement', {value: ';'}) : N('ExprStatement', {expr: conv(n.test, src)});
      return N('For', {init: init, cond: cond, count: conv(n.update, src), statement: conv(n.body, src)});
    }
    case 'ForInStatement': {
      let item;
      if (n.left.type === 'VariableDeclaration') {
        const d = n.left.declarations[0];
        item = N('VarDeclNoIn', {identifier: conv(d.id, src), initializer: conv(d.init, src)});
      } else item = conv(n.left, src);
      return N('ForIn', {item: item, iterable: conv(n.right, src), statement: conv(n.body, src)});
    }
    case 'ContinueStatement': return N('Continue', {identifier: conv(n.label, src)});
    case 'BreakStatement': return N('Break', {identifier: conv(n.label, src)});
    case 'ReturnStatement': return N('Return', {expr: conv(n.argument, src)});
    case 'WithStatement': return N('With', {expr: conv(n.object, src), statement: conv(n.body, src)});
    case 'SwitchStatement':
      return N('Switch', {expr: conv(n.discriminant, src), case_block: N('CaseBlock', {children: n.cases.map(c =>
        c.test === null ? N('Default', {elements: list(c.consequent, src)}) : N('Case', {expr: conv(c.test, src), elements: list(c.consequent, src)}))})});
    case 'LabeledStatement': return N('Label', {identifier: conv(n.label, src), statement: conv(n.body, src)});
    case 'ThrowStatement': return N('Throw', {expr: conv(n.argument, src)});
    case 'TryStatement':
      return N('Try', {statements: conv(n.block, src),
        'catch': n.handler ? N('Catch', {identifier: conv(n.handler.param, src), elements: conv(n.handler.body, src)}) : null,
        fin: n.finalizer ? N('Finally', {elements: conv(n.finalizer, src)}) : null});
    case 'DebuggerStatement': return N('Debugger', {value: 'debugger'});
    case 'FunctionDeclaration': return N('FuncDecl', {identifier: conv(n.id, src), parameters: list(n.params, src), elements: list(n.body.body, src)});
    case 'FunctionExpression': return N('FuncExpr', {identifier: conv(n.id, src), parameters: list(n.params, src), elements: list(n.body.body, src)});
    case 'Identifier': return N('Identifier', {value: src.slice(n.start, n.end)});
    case 'Literal': {
      const raw = src.slice(n.start, n.end);
      if (n.regex) return N('Regex', {value: raw});
      if (typeof n.value === 'string') return N('String', {value: raw});
      if (typeof n.value === 'number') return N('Number', {value: raw});
      if (typeof n.value === 'boolean') return N('Boolean', {value: raw});
      return N('Null', {value: raw});
    }
    case 'ThisExpression': return N('This', {});
    case 'ArrayExpression': {
      const items = []; let run = 0;
      for (const e of n.elements) {
        if (e === null) { run++; continue; }
        if (run) { items.push(N('Elision', {value: run})); run = 0; }
        items.push(conv(e, src));
      }
      if (run) items.push(N('Elision', {value: run}));
      return N('Array', {items: items});
    }
    case 'ObjectExpression':
      return N('Object', {properties: n.properties.map(p => {
        if (p.kind === 'get') return N('GetPropAssign', {prop_name: key(p.key, src), elements: list(p.value.body.body, src)});
        if (p.kind === 'set') return N('SetPropAssign', {prop_name: key(p.key, src), parameter: conv(p.value.params[0], src), elements: list(p.value.body.body, src)});
        return N('Assign', {left: key(p.key, src), op: ':', right: conv(p.value, src)});
      })});
    case 'MemberExpression':
      if (n.computed) return N('BracketAccessor', {node: conv(n.object, src), expr: conv(n.property, src)});
      return N('DotAccessor', {node: conv(n.object, src), identifier: N('PropIdentifier', {value: src.slice(n.property.start, n.property.end)})});
    case 'NewExpression': {
      const hasArgs = n.callee.end < n.end;
      return N('NewExpr', {identifier: conv(n.callee, src), args: hasArgs ? N('Arguments', {items: list(n.arguments, src)}) : null});
    }
    case 'CallExpression': return N('FunctionCall', {identifier: conv(n.callee, src), args: N('Arguments', {items: list(n.arguments, src)})});
    case 'UnaryExpression': return N('UnaryExpr', {op: n.operator, value: conv(n.argument, src)});
    case 'UpdateExpression': return N(n.prefix ? 'UnaryExpr' : 'PostfixExpr', {op: n.operator, value: conv(n.argument, src)});
    case 'BinaryExpression': case 'LogicalExpression': return N('BinOp', {op: n.operator, left: conv(n.left, src), right: conv(n.right, src)});
    case 'AssignmentExpression': return N('Assign', {op: n.operator, left: conv(n.left, src), right: conv(n.right, src)});
    case 'ConditionalExpression': return N('Conditional', {predicate: conv(n.test, src), consequent: conv(n.consequent, src), alternative: conv(n.alternate, src)});
    case 'SequenceExpression': {
      let e = conv(n.expressions[0], src);
      for (let i = 1; i < n.expressions.length; i++) e = N('Comma', {left: e, right: conv(n.expressions[i], src)});
      return e;
    }
    case 'ParenthesizedExpression': {
      let inner = n.expression;
      while (inner.type === 'ParenthesizedExpression') inner = inner.expression;
      return N('GroupingOp', {expr: conv(inner, src)});
    }
  }
  throw new Error('unmapped ' + n.type);
}
const out = srcs.map(s => {
  try { return {ok: conv(acorn.parse(s, {ecmaVersion: 5, preserveParens: true, allowReturnOutsideFunction: true}), s)}; }
  catch (e) { return {err: String(e.message)}; }
});
fs.writeFileSync(process.argv[3], JSON.stringify(out));

#!/venv/bin/python
"""Run the calmjs.parse test-suite, or any script, against the sources of a work tree.

usage:  /venv/bin/python /tmp/seed_tools/run_tests.py <worktree>            # runs the 797 tests
        /venv/bin/python /tmp/seed_tools/run_tests.py <worktree> script.py  # runs script.py with calmjs.parse imported from <worktree>/src

Why this exists: in this sandbox `import calmjs.parse` normally resolves to an installed copy in
site-packages, NOT to <worktree>/src, and ply caches generated parser tables next to the sources.
This runner copies <worktree>/src/calmjs to a temporary directory, points the `calmjs` namespace at
the copy, lets ply regenerate its tables there, and then runs pytest (or your script) in-process.
"""
import atexit, os, runpy, shutil, sys, tempfile

def main():
    wt = os.path.abspath(sys.argv[1])
    src = os.path.join(wt, 'src', 'calmjs')
    assert os.path.isdir(src), src
    root = tempfile.mkdtemp(prefix='calmjs-wt-', dir='/var/tmp')
    atexit.register(lambda: shutil.rmtree(root, ignore_errors=True))
    shutil.copytree(src, os.path.join(root, 'calmjs'),
                    ignore=shutil.ignore_patterns('__pycache__', 'lextab_*', 'yacctab_*', 'parser.out', '*.pyc'))
    import calmjs
    calmjs.__path__ = [os.path.join(root, 'calmjs')]
    import calmjs.parse.parsers.es5 as m
    assert m.__file__.startswith(root), m.__file__
    m.Parser()
    if len(sys.argv) > 2:
        sys.argv = sys.argv[2:]
        runpy.run_path(sys.argv[0], run_name='__main__')
        return 0
    import pytest
    os.chdir(root)
    return pytest.main(['-q', '-p', 'no:cacheprovider', '--no-header', '-W', 'ignore',
                        os.path.join(root, 'calmjs', 'parse', 'tests')])

if __name__ == '__main__':
    sys.exit(main())

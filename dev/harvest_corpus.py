"""Development aid: harvest program texts (inputs only, never expected outputs) from the
repository's own test manifests into corpus/harvested.json."""
import json, os, sys, textwrap
sys.path.insert(0, os.path.dirname(os.path.dirname(os.path.abspath(__file__))))
from vk import boot
root = boot.make_scratch(with_tests=True)
boot.pin(root)
import calmjs.parse.testing.util as util
inputs = []
def rec(name, f, manifest, *a, **kw):
    manifest = list(manifest)
    for item in manifest:
        if isinstance(item[1], str):
            inputs.append(item[1])
    return orig_b(name, f, manifest, *a, **kw)
orig_b = util.build_testcase
def build_testcase(name, f, manifest, create_test_method, **kw):
    manifest = list(manifest)
    for item in manifest:
        if len(item) > 1 and isinstance(item[1], str):
            inputs.append(item[1])
    return orig_b(name, f, manifest, create_test_method, **kw)
util.build_testcase = build_testcase
import importlib, pkgutil
import calmjs.parse.tests as T
for m in pkgutil.iter_modules(T.__path__):
    try:
        importlib.import_module('calmjs.parse.tests.' + m.name)
    except Exception as e:
        print('skip', m.name, e)
from vk.ref import refjs
seen = set(); valid = []; invalid = []
for s in inputs:
    for v in (s, textwrap.dedent(s).strip()):
        if v in seen or not v.strip() or len(v) > 6000:
            continue
        seen.add(v)
        (valid if refjs.accepts(v) else invalid).append(v)
out = os.path.join(os.path.dirname(os.path.dirname(os.path.abspath(__file__))), 'corpus', 'harvested.json')
json.dump({'valid': valid, 'invalid': invalid}, open(out, 'w'), indent=0, ensure_ascii=True)
print(len(valid), len(invalid))

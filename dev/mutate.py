#!/venv/bin/python
"""
Development aid (no registered command needs it): a mutation sweep over the repository's sources.

For a stratified sample of small source mutations (operator swaps, constant changes, dropped statements,
dropped elements of literal collections, dropped grammar alternatives) it
  1. applies the mutation to a scratch copy of /repo/src,
  2. runs the repository's own 797 tests re-pointed at the copy (a mutant they kill is not interesting:
     the brief is about changes that still pass the tests),
  3. for every surviving mutant runs the quick checks of the properties anchored in the mutated file.
Result: audit_results/mutation_sweep.json; the surviving mutants that no check reports are the triage list
(equivalent mutants, or gaps in a workload).

usage: dev/mutate.py [--per-file N] [--seed S] [--files a.py,b.py] [--jobs J] [--phase tests|checks|all]
"""
import io
import json
import os
import random
import re
import shutil
import subprocess
import sys
import tempfile
import tokenize
from concurrent.futures import ThreadPoolExecutor

HERE = os.path.dirname(os.path.dirname(os.path.abspath(__file__)))
SRC = '/repo/src/calmjs/parse'
OUT = os.path.join(HERE, 'audit_results', 'mutation_sweep.json')

FILES = {
    'lexers/es5.py': ['C03', 'C04', 'C05', 'C06', 'C11', 'C12', 'C13', 'C15'],
    'parsers/es5.py': ['C03', 'C04', 'C05', 'C11', 'C12', 'C13', 'C15', 'C17', 'C08'],
    'asttypes.py': ['C11', 'C16', 'C13', 'C08', 'C03'],
    'walkers.py': ['C16'],
    'unparsers/es5.py': ['C01', 'C02', 'C07', 'C13', 'C20', 'C14', 'C08'],
    'unparsers/walker.py': ['C01', 'C02', 'C08', 'C20', 'C14'],
    'unparsers/base.py': ['C14', 'C01', 'C02'],
    'unparsers/extractor.py': ['C19', 'C14'],
    'handlers/core.py': ['C01', 'C02', 'C08', 'C13', 'C20'],
    'handlers/indentation.py': ['C20', 'C01', 'C14'],
    'handlers/obfuscation.py': ['C07', 'C14', 'C08'],
    'rules.py': ['C02', 'C07', 'C14', 'C20', 'C01'],
    'ruletypes.py': ['C01', 'C02', 'C07', 'C14', 'C19', 'C13'],
    'sourcemap.py': ['C09', 'C18'],
    'vlq.py': ['C10', 'C09'],
    'io.py': ['C18'],
    'factory.py': ['C14', 'C15'],
    'parsers/optimize.py': ['C17'],
    'utils.py': ['C17', 'C12'],
    'lexers/tokens.py': ['C06', 'C04'],
}

SWAPS = {'==': '!=', '!=': '==', '<': '<=', '<=': '<', '>': '>=', '>=': '>', 'and': 'or', 'or': 'and',
         '+': '-', '-': '+', 'is': 'is not', 'in': 'not in', 'True': 'False', 'False': 'True',
         '+=': '-=', '-=': '+='}


def mutants_of(path, text):
    """list of (line number, operator name, mutated text)"""
    out = []
    lines = text.split('\n')
    try:
        toks = list(tokenize.generate_tokens(io.StringIO(text).readline))
    except Exception:
        return out
    offs = [0]
    for l in lines:
        offs.append(offs[-1] + len(l) + 1)

    def splice(tok, new):
        (r1, c1), (r2, c2) = tok.start, tok.end
        a, b = offs[r1 - 1] + c1, offs[r2 - 1] + c2
        return text[:a] + new + text[b:]
    prev = None
    depth = 0
    for i, t in enumerate(toks):
        if t.type == tokenize.OP and t.string in '([{':
            depth += 1
        if t.type == tokenize.OP and t.string in ')]}':
            depth -= 1
        if t.type in (tokenize.OP, tokenize.NAME) and t.string in SWAPS:
            s = t.string
            # skip 'in' of for loops and 'is not' / 'not in' second words, unary minus on literals is fine
            if s == 'in':
                k = i - 1
                is_for = False
                while k >= 0 and toks[k].start[0] == t.start[0]:
                    if toks[k].type == tokenize.NAME and toks[k].string == 'for':
                        is_for = True
                    k -= 1
                if is_for or (prev is not None and prev.string == 'not'):
                    prev = t
                    continue
            if s == 'is' and i + 1 < len(toks) and toks[i + 1].string == 'not':
                out.append((t.start[0], 'is_not->is', splice(toks[i + 1], '')))
                prev = t
                continue
            if s in ('+', '-') and (prev is None or prev.type == tokenize.OP and prev.string not in ')]}'):
                prev = t
                continue        # unary
            out.append((t.start[0], '%s->%s' % (s, SWAPS[s]), splice(t, SWAPS[s])))
        elif t.type == tokenize.NUMBER and re.match(r'^\d+$', t.string) and int(t.string) < 100:
            out.append((t.start[0], 'const+1', splice(t, str(int(t.string) + 1))))
            if int(t.string) > 0:
                out.append((t.start[0], 'const-1', splice(t, str(int(t.string) - 1))))
        elif t.type == tokenize.NAME and t.string == 'not' and not (i + 1 < len(toks) and toks[i + 1].string == 'in') \
                and not (prev is not None and prev.string == 'is'):
            out.append((t.start[0], 'drop_not', splice(t, '')))
        elif t.type == tokenize.STRING and depth > 0 and prev is not None and prev.string in (',', '(', '[', '{') \
                and i + 1 < len(toks) and toks[i + 1].string == ',' and not t.string.startswith(('"""', "'''", 'r"""')):
            # an element of a literal collection of strings (token type lists and the like)
            nxt = toks[i + 1]
            (r1, c1), (r2, c2) = t.start, nxt.end
            a, b = offs[r1 - 1] + c1, offs[r2 - 1] + c2
            out.append((t.start[0], 'drop_element', text[:a] + text[b:]))
        prev = t
    # statement-level: drop simple statements (assignments / calls on self, appends), force conditions
    for n, line in enumerate(lines, 1):
        st = line.strip()
        ind = line[:len(line) - len(line.lstrip())]
        if re.match(r'^(self\.\w+(\[[^\]]*\])? [-+]?= .*[^,(\[{\\]|[\w.]+\.(append|add|pop|extend|update|remove|insert)\(.*\))$', st) \
                and not st.endswith(':'):
            out.append((n, 'drop_statement', '\n'.join(lines[:n - 1] + [ind + 'pass'] + lines[n:])))
        m = re.match(r'^(if|elif|while) (.+):$', st)
        if m and '"""' not in st:
            out.append((n, 'cond_true', '\n'.join(lines[:n - 1] + ['%s%s True or (%s):' % (ind, m.group(1), m.group(2))] + lines[n:])))
            out.append((n, 'cond_false', '\n'.join(lines[:n - 1] + ['%s%s False and (%s):' % (ind, m.group(1), m.group(2))] + lines[n:])))
        if re.match(r'^\| \w', st) and path.endswith('parsers/es5.py'):
            out.append((n, 'drop_alternative', '\n'.join(lines[:n - 1] + lines[n:])))
        m = re.match(r'^return (?!None$)(.+)$', st)
        if m and not st.endswith(('(', ',', '\\')) and m.group(1).count('(') == m.group(1).count(')'):
            out.append((n, 'return_none', '\n'.join(lines[:n - 1] + [ind + 'return None'] + lines[n:])))
    return out


def scratch_with(rel, text):
    d = tempfile.mkdtemp(prefix='mut-', dir='/var/tmp')
    os.makedirs(d + '/src')
    shutil.copytree('/repo/src/calmjs', d + '/src/calmjs',
                    ignore=shutil.ignore_patterns('__pycache__', 'lextab_*', 'yacctab_*', '*.pyc'))
    with open(os.path.join(d, 'src/calmjs/parse', rel), 'w') as f:
        f.write(text)
    return d


def run_tests(repo):
    try:
        r = subprocess.run(['/venv/bin/python', HERE + '/dev/run_repo_tests.py', repo], capture_output=True, text=True,
                           timeout=240)
    except subprocess.TimeoutExpired:
        return False, 'timeout'
    tail = r.stdout.strip().split('\n')[-1] if r.stdout.strip() else r.stderr.strip()[-80:]
    return r.returncode == 0, tail


def run_check(prop, repo, jobs):
    env = dict(os.environ, VERIF_REPO=repo, VERIF_SEED='0', VERIF_JOBS=str(jobs),
               VERIF_EVIDENCE_DIR=os.path.join(repo, 'evidence'))
    try:
        r = subprocess.run([HERE + '/check', prop, '--tier', 'quick'], cwd=HERE, env=env, capture_output=True, text=True,
                           timeout=900)
    except subprocess.TimeoutExpired:
        return 3, ['timeout']
    mechs = sorted(set(l.strip()[len('mechanism: '):] for l in r.stdout.split('\n') if l.strip().startswith('mechanism:')))
    return r.returncode, mechs


def main():
    a = sys.argv[1:]

    def opt(name, default):
        return a[a.index(name) + 1] if name in a else default
    per_file = int(opt('--per-file', '30'))
    seed = int(opt('--seed', '0'))
    jobs = int(opt('--jobs', '4'))
    only = opt('--files', None)
    rng = random.Random(seed)
    todo = []
    for rel, props in FILES.items():
        if only and rel not in only.split(','):
            continue
        text = open(os.path.join(SRC, rel)).read()
        ms = mutants_of(rel, text)
        # a mutant must at least compile
        ms = [m for m in ms if m[2] != text]
        rng.shuffle(ms)
        n = per_file if len(text) < 40000 else per_file * 2
        for line, op, mt in ms[:n]:
            try:
                compile(mt, rel, 'exec')
            except SyntaxError:
                continue
            todo.append((rel, line, op, mt, props))
    print('%d mutants' % len(todo))
    results = []
    if os.path.exists(OUT) and '--append' in a:
        results = json.load(open(OUT))['results']
    done = set((r['file'], r['line'], r['operator']) for r in results)

    def one(item):
        rel, line, op, mt, props = item
        if (rel, line, op) in done:
            return None
        repo = scratch_with(rel, mt)
        try:
            ok, tail = run_tests(repo)
            entry = {'file': rel, 'line': line, 'operator': op, 'repository_tests': 'pass' if ok else 'killed: ' + tail[-60:],
                     'source_line': open(os.path.join(SRC, rel)).read().split('\n')[line - 1].strip()[:120]}
            if ok:
                verdicts = {}
                for p in props:
                    rc, mechs = run_check(p, repo, jobs)
                    verdicts[p] = {'rc': rc, 'mechanisms': mechs[:3]}
                    if rc == 1:
                        break       # reported by one check of the file's properties: enough
                entry['checks'] = verdicts
                entry['reported'] = any(v['rc'] == 1 for v in verdicts.values())
            return entry
        finally:
            shutil.rmtree(repo, ignore_errors=True)
    par = int(opt('--parallel', '4'))
    with ThreadPoolExecutor(par) as ex:
        for k, e in enumerate(ex.map(one, todo)):
            if e is None:
                continue
            results.append(e)
            print('%-24s %5d %-16s tests=%-8s %s' % (e['file'], e['line'], e['operator'], e['repository_tests'][:6],
                                                    ('REPORTED' if e.get('reported') else 'SILENT  ' + e['source_line'][:70])
                                                    if 'checks' in e else ''))
            sys.stdout.flush()
            if k % 10 == 0:
                os.makedirs(os.path.dirname(OUT), exist_ok=True)
                json.dump({'results': results}, open(OUT, 'w'), indent=1)
    json.dump({'results': results}, open(OUT, 'w'), indent=1)
    surv = [r for r in results if r['repository_tests'] == 'pass']
    print('%d mutants, %d survive the repository tests, %d of those reported by a check, %d silent' % (
        len(results), len(surv), sum(1 for r in surv if r.get('reported')), sum(1 for r in surv if not r.get('reported'))))


if __name__ == '__main__':
    main()

"""Development aid: run the repository's own test-suite against a *scratch copy of the working
tree* (the pinned baseline command imports calmjs.parse from site-packages, see DESIGN 1).
usage: python dev/run_repo_tests.py [repo_root] [pytest args...]"""
import os, sys
sys.path.insert(0, os.path.dirname(os.path.dirname(os.path.abspath(__file__))))
args = sys.argv[1:]
if args and os.path.isdir(args[0]):
    os.environ['VERIF_REPO'] = args.pop(0)
from vk import boot
root = boot.make_scratch(with_tests=True)
boot.pin(root)
import calmjs.parse.parsers.es5 as m
m.Parser()
os.chdir(root)
import pytest
rc = pytest.main(['-q', '-p', 'no:cacheprovider', '-x', '--no-header', '-W', 'ignore',
                  os.path.join(root, 'calmjs', 'parse', 'tests')] + args)
boot.check_origin(root)
sys.exit(rc)

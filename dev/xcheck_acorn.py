"""Development aid: cross-validate refjs against acorn (ecmaVersion 5) on generated programs.
usage: python dev/xcheck_acorn.py [N] [seed]"""
import json, os, random, subprocess, sys, tempfile, collections
sys.path.insert(0, os.path.dirname(os.path.dirname(os.path.abspath(__file__))))
from vk.ref import refjs
from vk.gen import jsgen

def tolist(c):
    if isinstance(c, tuple):
        return [tolist(x) for x in c]
    return c

def main():
    n = int(sys.argv[1]) if len(sys.argv) > 1 else 2000
    seed = int(sys.argv[2]) if len(sys.argv) > 2 else 0
    rng = random.Random(seed)
    srcs = []
    feats = list(jsgen.ALL_FEATURES)
    for i in range(n):
        o = jsgen.Opts(unicode_idents=(i % 7 == 0), string_continuations=(i % 5 == 0))
        toks, _ = jsgen.generate(rng, o, force=feats[i % len(feats)])
        k = i % 4
        if k == 0:
            s = jsgen.render(toks, 'space')
        elif k == 1:
            s = jsgen.render(toks, 'tight')
        elif k == 2:
            s = jsgen.render(toks, 'random', rng, lt=rng.choice(jsgen.LINE_TERMINATORS), comments=True)
        else:
            s = jsgen.render(jsgen.mutate_tokens(toks, rng), 'space')
        if rng.random() < 0.15:
            s = jsgen.mutate_chars(s, rng)
        srcs.append(s)
    d = tempfile.mkdtemp()
    json.dump(srcs, open(d + '/in.json', 'w'))
    subprocess.run(['node', '--expose-internals', os.path.join(os.path.dirname(__file__), 'acorn_canon.js'),
                    d + '/in.json', d + '/out.json'], check=True, stderr=subprocess.DEVNULL)
    outs = json.load(open(d + '/out.json'))
    stats = collections.Counter()
    shown = collections.Counter()
    for s, o in zip(srcs, outs):
        try:
            r = refjs.parse(s)
            mine = tolist(refjs.canon(r.tree)); err = None
        except refjs.RefSyntaxError as e:
            mine = None; err = e
        if 'ok' in o and mine is not None:
            if o['ok'] == mine:
                stats['both_accept_same'] += 1
            else:
                stats['TREE_DIFF'] += 1
                if shown['t'] < 5:
                    shown['t'] += 1; print('TREE_DIFF', repr(s)[:300])
        elif 'err' in o and mine is None:
            stats['both_reject'] += 1
        elif 'err' in o:
            key = 'acorn_rejects:' + ''.join(c for c in o['err'].split('(')[0] if not c.isdigit())[:50]
            stats[key] += 1
            if shown[key] < 2:
                shown[key] += 1; print(key, repr(s)[:200])
        else:
            key = 'ref_rejects:' + err.kind
            stats[key] += 1
            if shown[key] < 3:
                shown[key] += 1; print(key, repr(s)[:200], err)
    for k, v in sorted(stats.items()):
        print('%6d %s' % (v, k))

main()

#!/usr/bin/env python3
"""Regenerates the table of DESIGN.md section 8.5 from audit_results/mutation_audit.json
(written by ./audit).  usage: python3 tools_audit_table.py [--write]"""
import json
import os
import re
import sys

HERE = os.path.dirname(os.path.abspath(__file__))
BEGIN, END = '<!-- AUDIT_TABLE_BEGIN -->', '<!-- AUDIT_TABLE_END -->'


def what(entry):
    name = entry['name']
    if entry.get('kind') == 'seeded':
        meta = os.path.join(HERE, 'seeded', name, 'meta.json')
        if os.path.exists(meta):
            m = json.load(open(meta))
            t = m.get('needs_to_manifest', '')
            t = re.sub(r'^#[^*]*\*\s*', '', t)
            return t[:170].replace('|', '/').replace('\n', ' ')
    return ''


def main():
    data = json.load(open(os.path.join(HERE, 'audit_results', 'mutation_audit.json')))['results']
    rows = []
    order = {'spec': 0, 'seeded': 1}
    for e in sorted(data, key=lambda e: (e['property'], order.get(e.get('kind'), 2), e['name'])):
        tests = e.get('repository_tests_on_mutated_tree', '')
        if e.get('kind') == 'seeded':
            tests = 'pass'
        elif tests.startswith('FAIL'):
            tests = 'fail'
        mech = ', '.join(m.split(':', 1)[1] if ':' in m else m for m in e.get('mechanisms', [])[:2])
        kind = {'spec': 'own edit', 'seeded': 'sub-agent'}.get(e.get('kind'), e.get('kind', ''))
        rows.append('| %s | %s | %s | %s | %s | %s | %s |' % (
            e['property'], e['name'], kind, tests or '-', e.get('expected', ''), e.get('check_verdict', e.get('status', '')),
            (mech or what(e))[:150].replace('|', '/')))
    caught = sum(1 for e in data if e.get('expected') == 'caught' and e.get('check_verdict') == 'VIOLATION')
    want = sum(1 for e in data if e.get('expected') == 'caught')
    eq = sum(1 for e in data if e.get('expected') == 'equivalent' and e.get('check_verdict') == 'silent')
    weq = sum(1 for e in data if e.get('expected') == 'equivalent')
    head = ['%d of %d property-breaking changes are reported by the quick check of their property; %d of %d '
            'equivalent changes (negative controls) leave it silent. "repo tests" says whether the repository\'s own '
            '797 tests, re-pointed at the changed tree, still pass (all sub-agent changes were verified to pass them).'
            % (caught, want, eq, weq), '',
            '| property | change | origin | repo tests | expected | quick check | mechanism reported (or what the change needs) |',
            '|---|---|---|---|---|---|---|']
    table = '\n'.join(head + rows)
    if '--write' in sys.argv:
        p = os.path.join(HERE, 'DESIGN.md')
        s = open(p).read()
        if '@@AUDIT_TABLE@@' in s:
            s = s.replace('@@AUDIT_TABLE@@', BEGIN + '\n' + table + '\n' + END)
        else:
            i, j = s.index(BEGIN), s.index(END)
            s = s[:i] + BEGIN + '\n' + table + '\n' + s[j:]
        open(p, 'w').write(s)
    else:
        print(table)


if __name__ == '__main__':
    main()

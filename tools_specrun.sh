#!/bin/sh
# usage: tools_specrun.sh <spec name> <Cnn> [Cnn ...]: apply one edit of mutants/specs.py to a scratch copy of /repo and run the given checks
set -e
N="$1"; shift
D=$(mktemp -d /var/tmp/sd-XXXX)
trap 'rm -rf "$D"' EXIT
git -C /repo archive HEAD | tar -x -C "$D"
python3 - "$D" "$N" <<'PY'
import sys
sys.path.insert(0, '/verif')
from mutants.specs import M
for name, prop, path, old, new, exp in M:
    if name == sys.argv[2]:
        p = sys.argv[1] + '/src/calmjs/parse/' + path
        s = open(p).read()
        assert old in s, 'stale'
        open(p, 'w').write(s.replace(old, new, 1))
        break
else:
    raise SystemExit('no such spec')
PY
cd /verif
for P in "$@"; do VERIF_REPO="$D" VERIF_EVIDENCE_DIR="$D/ev" ./check "$P" 2>&1 | grep -v "^  |" | grep -v "^KNOWN" | tail -2 | cut -c1-220; done

#!/usr/bin/env python3
"""Regenerates the table of DESIGN.md section 8.6 from evidence/*.json and known_findings.json.
usage: python3 tools_checks_table.py [--write]"""
import json
import os
import sys

HERE = os.path.dirname(os.path.abspath(__file__))
BEGIN, END = '<!-- CHECKS_TABLE_BEGIN -->', '<!-- CHECKS_TABLE_END -->'


def main():
    man = json.load(open(os.path.join(HERE, 'MANIFEST.json')))
    kf = json.load(open(os.path.join(HERE, 'known_findings.json')))
    entries = kf['findings']
    rows = ['| property | monitor | evaluations | distinct non-trivial | first hook counters | repaired | open findings |',
            '|---|---|---|---|---|---|---|']
    for p in man['checks']:
        pid = p['property_id']
        ev = json.load(open(os.path.join(HERE, 'evidence', pid + '.json')))
        cov = ev.get('coverage', {})
        hooks = cov.get('hook_hits', {})
        first = ', '.join('%s=%s' % (k, hooks[k]) for k in sorted(hooks)[:4])
        fixed = sum(1 for e in entries if e.get('property') == pid and e.get('status') == 'fixed')
        opened = [e['id'] for e in entries if e.get('property') == pid and e.get('status') != 'fixed']
        rows.append('| %s | %s | %s | %s | %s | %d | %s |' % (
            pid, p.get('technique', '')[:150].replace('|', '/'), cov.get('evaluations'), cov.get('distinct_nontrivial'),
            first, fixed, ', '.join(opened) or '-'))
    table = '\n'.join(rows)
    if '--write' in sys.argv:
        path = os.path.join(HERE, 'DESIGN.md')
        s = open(path).read()
        i, j = s.index(BEGIN), s.index(END)
        s = s[:i] + BEGIN + '\n' + table + '\n' + s[j:]
        open(path, 'w').write(s)
    else:
        print(table)


if __name__ == '__main__':
    main()

"""
Scratch build of the code under test and import pinning (DESIGN 2.1).

The pinned test-suite of this sandbox imports ``calmjs.parse`` from
site-packages, *not* from /repo/src.  Everything here makes sure that the
monitors run the working tree: /repo/src/calmjs is copied to a scratch
directory outside /repo and /verif (so ply may write its table modules there),
``calmjs.__path__`` is pinned to that copy only, and a hard gate asserts that
every ``calmjs.parse*`` module really comes from the copy.
"""

import atexit
import os
import shutil
import signal
import sys
import tempfile

ENV_SCRATCH = 'VK_SCRATCH'


class HarnessBroken(Exception):
    """The harness could not establish what it needs: exit code 2."""


def repo_root():
    return os.environ.get('VERIF_REPO', '/repo')


def _ignore(dirname, names):
    out = []
    for n in names:
        if n == '__pycache__' or n.endswith(('.pyc', '.pyo')):
            out.append(n)
        elif n.startswith(('lextab_', 'yacctab_')) or n == 'parser.out':
            out.append(n)
    return out


def make_scratch(with_tests=False):
    """
    Copy <repo>/src/calmjs into a fresh scratch directory; returns the path of
    the scratch root (the directory that contains ``calmjs``).  Registered for
    removal at exit and on SIGTERM/SIGINT.
    """
    src = os.path.join(repo_root(), 'src', 'calmjs')
    if not os.path.isdir(os.path.join(src, 'parse')):
        raise HarnessBroken('no calmjs.parse sources under %s' % src)
    base = os.environ.get('VERIF_SCRATCH', '/var/tmp')
    os.makedirs(base, exist_ok=True)
    root = tempfile.mkdtemp(prefix='vk-', dir=base)

    def ignore(dirname, names):
        out = _ignore(dirname, names)
        if not with_tests and os.path.basename(dirname) == 'parse':
            out.extend(n for n in names if n in ('tests',))
        return out

    shutil.copytree(src, os.path.join(root, 'calmjs'), ignore=ignore)

    def cleanup(*a):
        shutil.rmtree(root, ignore_errors=True)

    atexit.register(cleanup)

    def on_signal(signum, frame):
        cleanup()
        os._exit(130)

    for s in (signal.SIGTERM, signal.SIGINT):
        try:
            signal.signal(s, on_signal)
        except ValueError:  # not main thread
            pass
    return root


def pin(root):
    """
    Pin ``calmjs`` to the scratch copy in *this* process and import the
    parser (ply builds lextab/yacctab into the copy when missing).  Returns
    the dict of pinned modules.
    """
    import calmjs  # the nspkg module created by the .pth file
    calmjs.__path__ = [os.path.join(root, 'calmjs')]
    for name in list(sys.modules):
        if name.startswith('calmjs.parse'):
            raise HarnessBroken('%s imported before pinning' % name)
    import calmjs.parse.parsers.es5  # noqa: F401
    import calmjs.parse  # noqa: F401
    check_origin(root)
    return calmjs.parse


def check_origin(root):
    bad = []
    n = 0
    for name, mod in list(sys.modules.items()):
        if name == 'calmjs.parse' or name.startswith('calmjs.parse.'):
            f = getattr(mod, '__file__', None) or ''
            n += 1
            if not os.path.realpath(f).startswith(os.path.realpath(root) + os.sep):
                bad.append((name, f))
    if bad or not n:
        raise HarnessBroken('calmjs.parse not loaded from scratch copy: %r' % (bad,))
    return n


def build_tables(root):
    """
    Build the optimised table modules once (in a child process so that the
    parent stays clean), so that the workers merely load them.
    """
    import subprocess
    code = (
        'import sys; sys.path.insert(0, %r); from vk import boot; '
        'boot.pin(%r); import calmjs.parse.parsers.es5 as m; m.Parser(); '
        'import os; d=os.path.dirname(m.__file__); '
        'print(sorted(f for f in os.listdir(d) if "tab_" in f))'
    ) % (os.path.dirname(os.path.dirname(os.path.abspath(__file__))), root)
    env = dict(os.environ, PYTHONDONTWRITEBYTECODE='1', PYTHONHASHSEED='0')
    r = subprocess.run([sys.executable, '-c', code], capture_output=True,
                       text=True, env=env, timeout=300)
    if r.returncode != 0:
        raise HarnessBroken('table build failed:\n%s\n%s' % (r.stdout, r.stderr))
    if 'lextab' not in r.stdout or 'yacctab' not in r.stdout:
        raise HarnessBroken('table modules not generated: %s' % r.stdout)
    return r.stdout.strip()


def worker_pin():
    root = os.environ.get(ENV_SCRATCH)
    if not root or not os.path.isdir(root):
        raise HarnessBroken('worker started without %s' % ENV_SCRATCH)
    pin(root)
    return root

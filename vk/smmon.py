"""
Reusable runtime monitor around the real ``calmjs.parse.sourcemap.write``:
active in every workload that prints through it (C09 directly, C18 through
``io.write``).  It materialises the fragment stream, tees the output stream,
and after the real call checks the returned (mappings, sources, names) -
encoded by the real ``encode_sourcemap`` - with the refsm decoder.
"""

from vk.ref import refsm


class Tee(object):
    def __init__(self, stream):
        self.stream = stream
        self.parts = []

    def write(self, s):
        self.parts.append(s)
        return self.stream.write(s)

    def __getattr__(self, name):
        return getattr(self.stream, name)


class SourcemapMonitor(object):
    def __init__(self, ctx, on_violation=None):
        self.ctx = ctx
        self.on_violation = on_violation
        self.calls = 0
        self.last = None

    def install(self):
        import calmjs.parse.sourcemap as sm
        self.sm = sm
        self.orig = sm.write
        me = self

        def write(stream_fragments, stream, normalize=True, book=None, sources=None, names=None, mappings=None):
            frags = [tuple(f) for f in stream_fragments]
            tee = Tee(stream)
            result = me.orig(iter(frags), tee, normalize=normalize, book=book, sources=sources, names=names,
                             mappings=mappings)
            if book is None and sources is None and names is None and mappings is None:
                me.calls += 1
                me.ctx.hit('sourcemap.write')
                me.verify(frags, ''.join(tee.parts), result, normalize)
            return result
        sm.write = write
        return self

    def remove(self):
        self.sm.write = self.orig

    def verify(self, frags, written, result, normalize):
        m, s, n = result
        smap = self.sm.encode_sourcemap('out.js', m, s, n)
        self.ctx.hit('encode_sourcemap')
        viol, stats = refsm.check_map(frags, written, smap, normalize)
        self.last = (viol, stats, smap)
        self.ctx.hit('explicit_fragments_verified', stats['explicit'])
        self.ctx.count('segments_decoded', stats['segments'])
        self.ctx.count('segments_1_field', stats['seg1'])
        self.ctx.count('segments_4_field', stats['seg4'])
        self.ctx.count('segments_5_field', stats['seg5'])
        self.ctx.count('verified_exact', stats['exact'])
        self.ctx.count('verified_interpolated', stats['interpolated'])
        if viol and self.on_violation:
            self.on_violation(viol, frags, normalize, smap)

import argparse
import os
import sys


def main():
    ap = argparse.ArgumentParser()
    ap.add_argument('prop')
    ap.add_argument('--tier', default=os.environ.get('VERIF_TIER') or 'quick',
                    choices=['quick', 'thorough'])
    ap.add_argument('--replay', default=None)
    a = ap.parse_args()
    from vk import run
    sys.exit(run.main(a.prop.upper(), a.tier, a.replay))


if __name__ == '__main__':
    main()

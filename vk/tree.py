"""
Reflection over implementation trees (own traversal over vars(node), not the
library's walkers) and the canonical form shared with refjs.
"""

POSITION_ATTRS = ('lexpos', 'lineno', 'colno', 'sourcepath')


def _is_node(v):
    return hasattr(v, 'children') and hasattr(v, 'getpos') and not isinstance(v, type)


def kind_of(node):
    return type(node).__name__


def public_attrs(node):
    """(name, value) of the attributes ReprWalker shows, plus the generic
    child list of container nodes under the name 'children'."""
    out = []
    d = vars(node)
    for k, v in d.items():
        if k.startswith('_') or k in POSITION_ATTRS:
            continue
        out.append((k, v))
    if '_children_list' in d:
        out.append(('children', d['_children_list']))
    return out


def canon_impl(node, comments=False):
    if _is_node(node):
        items = []
        for k, v in public_attrs(node):
            if k == 'comments':
                if comments and v is not None:
                    items.append((k, canon_impl(v, comments)))
                continue
            items.append((k, canon_impl(v, comments)))
        return (kind_of(node), tuple(sorted(items)))
    if isinstance(node, (list, tuple)):
        return tuple(canon_impl(x, comments) for x in node)
    return node


def first_diff(a, b, path='$'):
    """First differing path between two canonical forms, or None."""
    if a == b:
        return None
    if isinstance(a, tuple) and isinstance(b, tuple) and len(a) == 2 and len(b) == 2 \
            and isinstance(a[0], str) and isinstance(b[0], str) and isinstance(a[1], tuple) \
            and isinstance(b[1], tuple) and (not a[1] or isinstance(a[1][0], tuple)):
        if a[0] != b[0]:
            return '%s: kind %s != %s' % (path, a[0], b[0])
        da, db = dict(a[1]), dict(b[1])
        for k in sorted(set(da) | set(db)):
            if k not in da or k not in db:
                return '%s.%s: attribute only on one side' % (path, k)
            d = first_diff(da[k], db[k], '%s.%s' % (path, k))
            if d:
                return d
        return '%s: differs' % path
    if isinstance(a, tuple) and isinstance(b, tuple):
        if len(a) != len(b):
            return '%s: length %d != %d' % (path, len(a), len(b))
        for i, (x, y) in enumerate(zip(a, b)):
            d = first_diff(x, y, '%s[%d]' % (path, i))
            if d:
                return d
    return '%s: %r != %r' % (path, a if not isinstance(a, tuple) else a[0], b if not isinstance(b, tuple) else b[0])


def reflect_children(node):
    """Every node stored in any attribute (lists included) of ``node``, in
    attribute-dictionary order; includes private attributes that hold nodes."""
    out = []
    for k, v in vars(node).items():
        if k == '_token_map':
            continue
        if _is_node(v):
            out.append((k, v))
        elif isinstance(v, (list, tuple)):
            for i, x in enumerate(v):
                if _is_node(x):
                    out.append(('%s[%d]' % (k, i), x))
    return out


def reflect_walk(node, path='$'):
    """Pre-order (path, node) over everything reachable by reflection."""
    stack = [(path, node)]
    while stack:
        p, n = stack.pop()
        yield p, n
        ch = reflect_children(n)
        for k, c in reversed(ch):
            stack.append((p + '.' + k, c))


def fingerprint(node, positions=True):
    """Deep reflective fingerprint including positions, token maps, comments
    and sourcepath (for purity checks)."""
    if _is_node(node):
        items = []
        for k, v in sorted(vars(node).items()):
            if k == '_token_map':
                tm = tuple(sorted((str(t), tuple(tuple(p) for p in ps)) for t, ps in dict(v).items())) \
                    if positions and isinstance(v, dict) else ()
                items.append((k, tm))
            else:
                items.append((k, fingerprint(v, positions)))
        if positions:
            items.append(('@', (node.lexpos, node.lineno, node.colno, node.sourcepath)))
        return (kind_of(node), tuple(items))
    if isinstance(node, (list, tuple)):
        return tuple(fingerprint(x, positions) for x in node)
    if isinstance(node, dict):
        return tuple(sorted((repr(k), fingerprint(v, positions)) for k, v in node.items()))
    if isinstance(node, (str, int, float, bool)) or node is None:
        return node
    return repr(type(node))


def count_nodes(node):
    return sum(1 for _ in reflect_walk(node))

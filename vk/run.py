"""
Orchestration: sharding over worker subprocesses, watchdogs, verdicts,
evidence, replay files, known findings (DESIGN 2.5, 2.6).
"""

import hashlib
import importlib
import json
import os
import random
import re
import subprocess
import sys
import time
import traceback
from collections import Counter

from vk import boot

VERIF = os.path.dirname(os.path.dirname(os.path.abspath(__file__)))
KNOWN_FILE = os.path.join(VERIF, 'known_findings.json')

MAX_HASHES = 400000      # per worker, distinct-case hashes shipped to the parent
MAX_VIOL_PER_MECH = 3    # witnesses kept per mechanism per worker


def h64(obj):
    if not isinstance(obj, (bytes, str)):
        obj = repr(obj)
    if isinstance(obj, str):
        obj = obj.encode('utf-8', 'surrogatepass')
    return int.from_bytes(hashlib.blake2b(obj, digest_size=8).digest(), 'big')


def load_known(prop=None):
    try:
        with open(KNOWN_FILE) as f:
            data = json.load(f)
    except FileNotFoundError:
        return []
    out = []
    for e in data.get('findings', []):
        if prop is None or e.get('property') == prop:
            out.append(e)
    return out


class Ctx(object):
    """What a monitor sees inside a worker."""

    def __init__(self, prop, tier, seed, shard, nshards, budget_s, replay=None):
        self.prop = prop
        self.tier = tier
        self.seed = seed
        self.shard = shard
        self.nshards = nshards
        self.rng = random.Random(h64('%s/%s/%s' % (prop, seed, shard)))
        self.t0 = time.monotonic()
        self.budget_s = budget_s
        self.counters = Counter()
        self.hits = Counter()
        self.evaluations = 0
        self.hashes = set()
        self.hash_overflow = 0
        self.samples = []
        self.violations = []
        self.viol_count = Counter()
        self.notes = []
        self.extra = {}
        self.known = load_known(prop)
        self._suppressed = set()
        self._own_suppressed = set()
        # triggers of open findings owned by this property, and of open
        # findings of other properties that list this one under "affects"
        # (one root cause, one property: DESIGN 2.7)
        for e in load_known(None):
            if e.get('status') == 'open' and (
                    e.get('property') == prop or prop in e.get('affects', [])):
                self._suppressed.update(e.get('suppress', []))
                if e.get('property') == prop:
                    self._own_suppressed.update(e.get('suppress', []))
        self.canary_results = {}
        self.replaying = replay

    # -- accounting -------------------------------------------------------
    def thorough(self):
        return self.tier == 'thorough'

    def pick(self, quick, thorough):
        return thorough if self.tier == 'thorough' else quick

    def per_shard(self, quick, thorough):
        """a case count given for one of 16 shards: with fewer shards each takes a larger share, so that
        the workload as a whole does not shrink with the number of cores (time budgets still cap it)"""
        n = thorough if self.tier == 'thorough' else quick
        return max(1, (n * 16 + self.nshards - 1) // self.nshards)

    def time_left(self):
        return self.budget_s - (time.monotonic() - self.t0)

    def out_of_time(self):
        if self.time_left() <= 0:
            self.counters['truncated_by_time'] = 1
            return True
        return False

    def suppressed(self, feature):
        return feature in self._suppressed

    def case(self, key, nontrivial=True, sample=None):
        """
        Account one explored case.  ``key`` identifies it (input +
        configuration); ``nontrivial`` is the monitor's own rule.
        """
        self.evaluations += 1
        if nontrivial:
            if len(self.hashes) < MAX_HASHES:
                self.hashes.add(h64(key))
            else:
                self.hash_overflow += 1
            if sample is not None and len(self.samples) < 4:
                self.samples.append(sample)

    def bulk(self, evaluated, distinct_nontrivial):
        """
        Account a block of cases that are pairwise distinct *by construction*
        (a partitioned enumeration): both numbers are counted by the caller
        while iterating, not derived.
        """
        self.evaluations += evaluated
        self.hash_overflow += distinct_nontrivial

    def count(self, name, n=1):
        self.counters[name] += n

    def hit(self, name, n=1):
        self.hits[name] += n

    def note(self, text):
        if len(self.notes) < 20:
            self.notes.append(text)

    def violation(self, mech, witness, detail=''):
        """
        ``mech`` is the mechanism key (never a hash or a random value);
        ``witness`` a JSON-serialisable dict from which the monitor's
        ``replay`` can re-run the case.
        """
        self.viol_count[mech] += 1
        if self.viol_count[mech] <= MAX_VIOL_PER_MECH:
            self.violations.append(
                {'mech': mech, 'witness': witness, 'detail': str(detail)[:4000]})

    def result(self):
        return {
            'shard': self.shard,
            'evaluations': self.evaluations,
            'hashes': sorted(self.hashes),
            'hash_overflow': self.hash_overflow,
            'samples': self.samples,
            'counters': dict(self.counters),
            'hits': dict(self.hits),
            'violations': self.violations,
            'viol_count': dict(self.viol_count),
            'notes': self.notes,
            'extra': self.extra,
            'canary': self.canary_results,
            'wall_s': time.monotonic() - self.t0,
        }


def load_monitor(prop):
    return importlib.import_module('vk.mon.%s' % prop.lower())


# ---------------------------------------------------------------------------
# worker side

def worker_main(argv):
    prop, tier, seed, shard, nshards, budget, outfile = argv[:7]
    replay = argv[7] if len(argv) > 7 else None
    seed, shard, nshards, budget = int(seed), int(shard), int(nshards), float(budget)
    res = {'shard': shard, 'fatal': None}
    try:
        boot.worker_pin()
        mon = load_monitor(prop)
        witness = None
        if replay:
            with open(replay) as f:
                witness = json.load(f)
        ctx = Ctx(prop, tier, seed, shard, nshards, budget, replay=witness)
        if witness is not None:
            mon.replay(ctx, witness.get('witness', witness))
        else:
            if shard == 0:
                # planted observations: the oracle must fire on them
                planted = mon.selfcheck(ctx)
                ctx.extra['planted_observations'] = planted
                # canaries of known findings
                for e in ctx.known:
                    spec = e.get('canary')
                    if spec is None:
                        continue
                    try:
                        ctx.canary_results[e['id']] = mon.canary(ctx, spec)
                    except Exception:
                        ctx.canary_results[e['id']] = 'canary-error: ' + traceback.format_exc()[-600:]
            mon.run(ctx)
        res.update(ctx.result())
    except boot.HarnessBroken as e:
        res['fatal'] = 'harness: %s' % e
    except BaseException:
        res['fatal'] = traceback.format_exc()
    with open(outfile, 'w') as f:
        json.dump(res, f)
    return 0


# ---------------------------------------------------------------------------
# parent side

def match_known(mech, known):
    for e in known:
        if e.get('status') != 'open':
            continue
        for pat in e.get('match', []):
            if re.search(pat, mech):
                return e
    return None


def write_evidence(prop, payload):
    # the mutation audit redirects evidence so that /verif/evidence only ever describes /repo itself
    d = os.environ.get('VERIF_EVIDENCE_DIR') or os.path.join(VERIF, 'evidence')
    os.makedirs(d, exist_ok=True)
    path = os.path.join(d, '%s.json' % prop)
    tmp = path + '.tmp'
    with open(tmp, 'w') as f:
        json.dump(payload, f, indent=1, sort_keys=True, ensure_ascii=True)
        f.write('\n')
    os.replace(tmp, path)
    return path


def main(prop, tier='quick', replay=None):
    t0 = time.monotonic()
    seed = int(os.environ.get('VERIF_SEED', '0') or 0)
    mon = load_monitor(prop)
    level = getattr(mon, 'LEVEL', 'exploration')
    try:
        root = boot.make_scratch()
        tabs = boot.build_tables(root)
    except boot.HarnessBroken as e:
        print('INCONCLUSIVE property=%s reason=harness: %s' % (prop, e))
        return 2

    nshards = int(os.environ.get('VERIF_JOBS', '0') or 0) or min(16, os.cpu_count() or 4)
    if replay:
        nshards = 1
    nshards = min(nshards, getattr(mon, 'MAX_SHARDS', 64))
    budget = mon.BUDGET_S[tier] if isinstance(getattr(mon, 'BUDGET_S', None), dict) else 120.0
    if os.environ.get('VERIF_BUDGET_S'):
        budget = float(os.environ['VERIF_BUDGET_S'])
    hard = budget * 2.5 + 120

    env = dict(os.environ)
    env[boot.ENV_SCRATCH] = root
    env['PYTHONHASHSEED'] = '0'
    env['PYTHONDONTWRITEBYTECODE'] = '1'
    env['PYTHONPATH'] = VERIF + os.pathsep + env.get('PYTHONPATH', '')
    procs = []
    for i in range(nshards):
        out = os.path.join(root, 'result-%d.json' % i)
        cmd = [sys.executable, '-m', 'vk.worker', prop, tier, str(seed), str(i),
               str(nshards), str(budget), out]
        if replay:
            cmd.append(os.path.abspath(replay))
        log = open(os.path.join(root, 'log-%d.txt' % i), 'w')
        procs.append((i, out, subprocess.Popen(
            cmd, cwd=VERIF, env=env, stdout=log, stderr=subprocess.STDOUT), log))

    results = []
    problems = []
    deadline = time.monotonic() + hard
    for i, out, p, log in procs:
        try:
            p.wait(timeout=max(1.0, deadline - time.monotonic()))
        except subprocess.TimeoutExpired:
            p.kill()
            p.wait()
            problems.append('shard %d hit the wall-clock watchdog (%.0fs)' % (i, hard))
            continue
        finally:
            log.close()
        try:
            with open(out) as f:
                results.append(json.load(f))
        except Exception:
            tail = ''
            try:
                with open(os.path.join(root, 'log-%d.txt' % i)) as f:
                    tail = f.read()[-1500:]
            except Exception:
                pass
            problems.append('shard %d died (rc=%s): %s' % (i, p.returncode, tail))
    for r in results:
        if r.get('fatal'):
            problems.append('shard %s: %s' % (r.get('shard'), r['fatal'][-1500:]))

    # merge
    evaluations = sum(r.get('evaluations', 0) for r in results)
    hashes = set()
    overflow = 0
    counters = Counter()
    hits = Counter()
    samples = []
    violations = []
    viol_count = Counter()
    notes = []
    extra = {}
    canary = {}
    for r in results:
        hashes.update(r.get('hashes', ()))
        overflow += r.get('hash_overflow', 0)
        counters.update(r.get('counters', {}))
        hits.update(r.get('hits', {}))
        violations.extend(r.get('violations', []))
        viol_count.update(r.get('viol_count', {}))
        notes.extend(r.get('notes', []))
        for k, v in r.get('extra', {}).items():
            if k.endswith('__set'):
                extra.setdefault(k, set()).update(v)
            elif k.endswith('__max'):
                extra[k] = max(extra.get(k, v), v)
            elif isinstance(v, bool) and isinstance(extra.get(k), bool):
                extra[k] = extra[k] and v
            elif isinstance(v, dict) and isinstance(extra.get(k), dict):
                for kk, vv in v.items():
                    if isinstance(vv, (int, float)) and isinstance(extra[k].get(kk), (int, float)):
                        extra[k][kk] += vv
                    else:
                        extra[k].setdefault(kk, vv)
            elif isinstance(v, list) and isinstance(extra.get(k), list):
                extra[k] = (extra[k] + [x for x in v if x not in extra[k]])[:60]
            elif isinstance(v, (int, float)) and isinstance(extra.get(k), (int, float)) \
                    and not isinstance(v, bool):
                extra[k] += v
            else:
                extra.setdefault(k, v)
        canary.update(r.get('canary', {}))
    for k in list(extra):
        if k.endswith('__set'):
            vals = sorted(extra.pop(k))
            extra[k[:-5]] = vals[:600]
            extra[k[:-5] + '_count'] = len(vals)
        elif k.endswith('__max'):
            extra[k[:-5]] = extra.pop(k)
    for r in sorted(results, key=lambda r: r.get('shard', 0)):
        for s in r.get('samples', []):
            if len(samples) < 8:
                samples.append(s)

    known = load_known(prop)
    lines = []
    # canaries first
    known_still = []
    for e in known:
        cid = e['id']
        res = canary.get(cid)
        if e.get('canary') is None:
            continue
        if isinstance(res, str) and res.startswith('canary-error'):
            problems.append('canary %s could not run: %s' % (cid, res))
            continue
        if e.get('status') == 'open':
            if res:
                known_still.append(cid)
                lines.append('KNOWN-FINDING: property=%s %s [%s]' % (prop, e['what'], cid))
            elif not replay:
                notes.append('known finding %s no longer reproduces (canary passed)' % cid)
        else:  # fixed: suppresses nothing
            if res:
                viol_count['fixed-regressed:%s' % cid] += 1
                violations.append({'mech': 'fixed-regressed:%s:%s' % (cid, res),
                                   'witness': {'canary': e['canary']},
                                   'detail': 'fixed finding %s fails again' % cid})

    unlisted = []
    listed = Counter()
    for v in violations:
        e = match_known(v['mech'], known)
        if e is not None:
            listed[e['id']] += 1
        else:
            unlisted.append(v)
    n_unlisted_total = 0
    for mech, n in viol_count.items():
        if match_known(mech, known) is None:
            n_unlisted_total += n
    for cid in listed:
        if cid not in known_still:
            known_still.append(cid)
            e = [x for x in known if x['id'] == cid][0]
            lines.append('KNOWN-FINDING: property=%s %s [%s]' % (prop, e['what'], cid))

    replay_paths = []
    if unlisted:
        d = os.path.join(VERIF, 'replay', prop)
        os.makedirs(d, exist_ok=True)
        seen = set()
        for v in unlisted:
            if v['mech'] in seen:
                continue
            seen.add(v['mech'])
            name = re.sub(r'[^A-Za-z0-9_.-]+', '_', v['mech'])[:80]
            path = os.path.join(d, '%s-%s.json' % (name, '%08x' % (h64(json.dumps(v, sort_keys=True)) & 0xffffffff)))
            with open(path, 'w') as f:
                json.dump({'property': prop, 'seed': seed, 'tier': tier, 'mech': v['mech'],
                           'witness': v['witness'], 'detail': v['detail']}, f, indent=1)
            replay_paths.append((v['mech'], path, v['detail']))

    distinct = len(hashes) + overflow
    required = list(getattr(mon, 'REQUIRED_HITS', ()))
    missing = [h for h in required if not hits.get(h)]
    floor = getattr(mon, 'FLOOR', {}).get(tier, 2) if isinstance(getattr(mon, 'FLOOR', None), dict) else 2
    planted = extra.get('planted_observations')
    if not replay:
        if missing:
            problems.append('deciding hooks never reached: %s' % ', '.join(missing))
        if distinct < floor:
            problems.append('only %d distinct non-trivial cases (floor %d)' % (distinct, floor))
        if not planted:
            problems.append('planted observations were not evaluated')

    wall = time.monotonic() - t0
    coverage = {
        'evaluations': int(evaluations),
        'distinct_nontrivial': int(distinct),
        'rule': getattr(mon, 'RULE', ''),
        'samples': samples or ['(none)'],
        'exhaustive': bool(extra.pop('exhaustive', False)),
        'hook_hits': dict(hits),
        'counters': dict(counters),
        'planted_observations': planted,
        'known_findings_reproduced': known_still,
        'violations_by_mechanism': dict(viol_count),
        'shards': nshards,
        'table_modules': tabs,
        'notes': notes[:30],
    }
    coverage.update(extra)
    payload = {
        'property_id': prop,
        'tier': tier if tier in ('quick', 'thorough') else 'quick',
        'seed': seed,
        'level': level,
        'coverage': coverage,
        'assumptions': list(getattr(mon, 'ASSUMPTIONS', [])),
        'wall_s': round(wall, 2),
        'violations': int(n_unlisted_total),
        'verdict': ('violated' if unlisted else 'inconclusive' if problems else 'held-on-observed'),
        'problems': problems,
    }
    if not replay:
        write_evidence(prop, payload)

    for ln in lines:
        print(ln)
    for mech, path, detail in replay_paths:
        print('VIOLATION property=%s replay=%s' % (prop, path))
        print('  mechanism: %s' % mech)
        for dl in str(detail).splitlines()[:12]:
            print('  | ' + dl)
    print('%s %s tier=%s seed=%d evaluations=%d distinct_nontrivial=%d violations=%d wall=%.1fs' % (
        prop, payload['verdict'], tier, seed, evaluations, distinct, n_unlisted_total, wall))
    if unlisted:
        return 1
    if problems:
        for p in problems:
            print('INCONCLUSIVE property=%s reason=%s' % (prop, p.replace('\n', ' | ')[:1500]))
        return 2
    return 0

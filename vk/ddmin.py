"""Delta minimisation of witnesses (token level)."""
import re

_PIECE = re.compile(r'''\s+|[A-Za-z_$][\w$]*|\d[\w.]*|"(?:\\.|[^"\\])*"|'(?:\\.|[^'\\])*'|>>>=|===|!==|>>>|<<=|>>=|\+\+|--|&&|\|\||[-+*/%&|^<>=!]=|.''', re.S)


def pieces(text):
    return _PIECE.findall(text)


def ddmin(items, failing, max_tests=600):
    """classic ddmin over a list; ``failing(list) -> bool``."""
    n = 2
    tests = 0
    items = list(items)
    while len(items) >= 2 and tests < max_tests:
        chunk = max(1, len(items) // n)
        reduced = False
        for i in range(0, len(items), chunk):
            cand = items[:i] + items[i + chunk:]
            tests += 1
            if cand and failing(cand):
                items = cand
                n = max(n - 1, 2)
                reduced = True
                break
            if tests >= max_tests:
                break
        if not reduced:
            if chunk == 1:
                break
            n = min(len(items), n * 2)
    return items


def minimise_text(text, failing, max_tests=600):
    ps = pieces(text)
    if ''.join(ps) != text:
        ps = list(text)
    out = ddmin(ps, lambda c: failing(''.join(c)), max_tests)
    res = ''.join(out)
    # second pass: character level on short strings
    if len(res) <= 60:
        out = ddmin(list(res), lambda c: failing(''.join(c)), max_tests // 2)
        res = ''.join(out)
    return res

"""Specification-derived self-tests of the reference models (setup_cmd)."""
import importlib
import sys

MODELS = ['refvlq', 'refsm', 'refjs', 'refscope']


def main():
    ok = True
    for name in MODELS:
        try:
            m = importlib.import_module('vk.ref.' + name)
        except ImportError:
            continue
        try:
            m.selftest()
            print('selftest %s: ok' % name)
        except Exception as e:
            ok = False
            print('selftest %s: FAILED %r' % (name, e))
    return 0 if ok else 1


if __name__ == '__main__':
    sys.exit(main())

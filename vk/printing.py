"""
Shared helpers for the printing-side monitors (C01, C02, C07, C08, C13, C20).
"""

import re

from vk import work
from vk.ref import refjs
from vk import tree as vtree
from vk.tree import first_diff

CONT = re.compile(r'\\(\r\n|\n|\r(?!\n)|\u2028|\u2029)')


def strip_continuations_canon(c):
    """remove line continuations from String values of a canonical form"""
    if isinstance(c, tuple) and len(c) == 2 and isinstance(c[0], str) and isinstance(c[1], tuple) and \
            (not c[1] or isinstance(c[1][0], tuple)):
        kind, attrs = c
        if kind == 'String':
            return (kind, tuple((k, CONT.sub('', v) if k == 'value' and isinstance(v, str) else v) for k, v in attrs))
        return (kind, tuple((k, strip_continuations_canon(v)) for k, v in attrs))
    if isinstance(c, tuple):
        return tuple(strip_continuations_canon(x) for x in c)
    return c


STATEMENT_LISTS = {('ES5Program', 'children'), ('Block', 'children'), ('FuncDecl', 'elements'),
                   ('FuncExpr', 'elements'), ('Case', 'elements'), ('Default', 'elements'),
                   ('GetPropAssign', 'elements'), ('SetPropAssign', 'elements')}


def drop_empty_statements_canon(c):
    """drop EmptyStatement nodes that are direct members of a statement list
    (never a loop / if / label / with body)"""
    if isinstance(c, tuple) and len(c) == 2 and isinstance(c[0], str) and isinstance(c[1], tuple) and \
            (not c[1] or isinstance(c[1][0], tuple)):
        kind, attrs = c
        out = []
        for k, v in attrs:
            if (kind, k) in STATEMENT_LISTS and isinstance(v, tuple):
                v = tuple(x for x in v if not (isinstance(x, tuple) and len(x) == 2 and x[0] == 'EmptyStatement'))
            out.append((k, drop_empty_statements_canon(v)))
        return (kind, tuple(out))
    if isinstance(c, tuple):
        return tuple(drop_empty_statements_canon(x) for x in c)
    return c


def minified_canon(c):
    return drop_empty_statements_canon(strip_continuations_canon(c))


def count_kinds(c, acc=None):
    acc = acc if acc is not None else {}
    if isinstance(c, tuple) and len(c) == 2 and isinstance(c[0], str) and isinstance(c[1], tuple) and \
            (not c[1] or isinstance(c[1][0], tuple)):
        acc[c[0]] = acc.get(c[0], 0) + 1
        for k, v in c[1]:
            count_kinds(v, acc)
    elif isinstance(c, tuple):
        for x in c:
            count_kinds(x, acc)
    return acc


class Prepared(object):
    """an input accepted by the real parser, with the cascade guards applied"""
    __slots__ = ('text', 'side', 'es5', 'tree', 'ci', 'ntok', 'kinds')


def prepare(ctx, text, with_comments=False):
    """
    Parse with the real parser (and refjs).  Returns a Prepared or None when
    the case has to be skipped (rejected by the implementation: C03/C04's to
    report; oracle uncertain; trigger of an open known finding).
    """
    try:
        s = work.both(text, with_comments)
    except RecursionError:
        ctx.count('skipped:resource_limit')
        return None
    if s.tree is None:
        ctx.count('skipped:impl_rejects')
        return None
    if work.skip_known(ctx, text, s.ref):
        return None
    # where the reference model is not authoritative (Annex B octals, escaped reserved words ...) the
    # statements about "the parser itself" still apply to a text it accepted; only the "any conforming
    # parser" clause is dropped
    unsure = work.uncertain(s.ref, s.ref_err)
    if unsure:
        ctx.count('oracle_uncertain:self_consistency_only')
    p = Prepared()
    p.text = text
    p.side = s
    p.tree = s.tree
    try:
        p.ci = s.ci
        # "any conforming ES5 parser" applies only to inputs refjs itself accepts
        # with the same tree; otherwise self-consistency only (input_not_es5)
        p.es5 = (not unsure) and s.ref is not None and s.cr == s.ci
        p.kinds = count_kinds(p.ci)
    except RecursionError:
        # the tree is deeper than this harness' own recursive helpers go: no verdict
        ctx.count('skipped:resource_limit')
        return None
    if not p.es5:
        ctx.count('input_not_es5')
    p.ntok = len(s.ref.tokens) if s.ref is not None else len(text.split())
    return p


def reparse(output):
    """(tree canon or None, error) of the real parser on printer output"""
    from calmjs.parse.exceptions import ECMASyntaxError
    from calmjs.parse.parsers.es5 import parse
    try:
        t = parse(output)
    except ECMASyntaxError as e:
        return None, None, e
    return t, vtree.canon_impl(t), None


def ref_canon(output):
    try:
        r = refjs.parse(output)
    except refjs.RefSyntaxError as e:
        return None, None, e
    except RecursionError:
        return None, None, None
    return r, refjs.canon(r.tree), None


_warm = []


def used_printer(indent):
    """a pretty printer object with a history: one walk abandoned inside two open blocks, one completed"""
    from calmjs.parse.unparsers.es5 import pretty_printer
    from calmjs.parse.parsers.es5 import parse
    if not _warm:
        _warm.append(parse('function w(a) { if (a) { b(); c(); } switch (d) { case 1: e(); } }'))
    printer = pretty_printer(indent)
    gen = iter(printer(_warm[0]))
    for _ in range(22):
        next(gen)
    gen.close()
    for _ in printer(_warm[0]):
        pass
    return printer

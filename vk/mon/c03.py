"""
C03 - the parser accepts exactly the ES5 grammar and builds the tree it dictates.

Differential acceptance / tree monitor: the real ``parse`` against refjs on
(a) every token string up to length k over a representative alphabet,
(b) grammar derivations in several layouts, (c) their single-token mutations,
(d) the corpus.
"""

import itertools
import re

from vk.boot import HarnessBroken
from vk import work, probe, known
from vk.gen import jsgen
from vk.ref import refjs
from vk.tree import first_diff
from vk import tree as vtree
from vk.ddmin import minimise_text

LEVEL = 'exploration'
RULE = ('(a) exhaustive: every string of <=k tokens (k=3 quick, 4 thorough) over a 27-token alphabet, '
        'joined by blanks (the alphabet contains a line break, so ASI and restricted productions are '
        'enumerated); (a2) every string of <=4 (thorough 5) characters over 0 1 7 8 9 . e x a - + as a numeric spelling, a backslash '
        'followed by every ASCII character and 12 others in both kinds of string literal, identifiers spelled with 28 kinds of escape; (b) random derivations of the Annex A grammar, one grammar alternative forced per '
        'case round-robin, rendered in 5 layouts; (c) single-token mutations of (b); (d) corpus. '
        'distinct = distinct input text; non-trivial = at least 2 tokens (enumeration) / at least 8 tokens '
        '(derivations and mutants).')
ASSUMPTIONS = ['refjs (recursive-descent ES5.1 front end written from ECMA-262 5.1 clause 7 / Annex A, '
               'cross-validated against acorn at development time) is the oracle for derivability and tree shape',
               'early errors are not checked by either side; FunctionDeclaration is admitted as a Statement; '
               'Annex B forms and escaped identifiers are counted oracle_uncertain, never violations']
BUDGET_S = {'quick': 75, 'thorough': 900}
REQUIRED_HITS = ['parse', 'refjs', 'production_reduced', 'parser_variant', 'multiline_token', 'string_escape', 'numeric_spelling']
FLOOR = {'quick': 5000, 'thorough': 60000}

ALPHABET = ['a', '1', "'s'", '/', '(', ')', '{', '}', '[', ']', ';', ',', ':', '?', '.', '=', '+', '++',
            'in', 'new', 'function', 'var', 'if', 'else', 'for', 'return', '\n']


def template(msg):
    """error-message template: quoted text and numbers removed"""
    msg = re.sub(r"'(?:\\.|[^'\\])*'|\"(?:\\.|[^\"\\])*\"", 'Q', str(msg))
    msg = re.sub(r'\d+', 'N', msg)
    return msg[:80]


DIALECTS = ['lenient_function_statement']


def attribute(s):
    """
    Mechanism attribution: does the implementation's outcome on this text
    coincide with the reference parser run under exactly one known-deviation
    dialect switch?  Returns the switch name or None.  (The verdict itself
    always comes from the standard dialect.)
    """
    if getattr(s, 'text', None) is None:
        return None
    for d in DIALECTS:
        try:
            r = refjs.parse(s.text, **{d: True})
            cr = refjs.canon(r.tree)
        except refjs.RefSyntaxError:
            cr = None
        except RecursionError:
            continue
        if (s.tree is None and cr is None) or (s.tree is not None and cr is not None and cr == s.ci):
            return d
    return None


def judge(s):
    """
    The oracle: compares the two outcomes of a ``work.Side``.  Returns None
    when they agree, else (mechanism key, detail).
    """
    v = _judge(s)
    if v is not None:
        d = attribute(s)
        if d:
            return ('C03:deviation:' + d, v[1] + ' [the outcome equals that of the reference parser with the '
                    'known deviation %r switched on]' % d)
    return v


def _judge(s):
    if s.ref is not None and s.tree is not None:
        if s.ci == s.cr:
            return None
        d = first_diff(s.ci, s.cr)
        where = re.sub(r'\[\d+\]', '[]', d.split(':')[0])
        where = '.'.join(where.split('.')[-2:])
        return ('C03:tree_differs:' + where, 'implementation tree differs from the derivation: %s' % d)
    if s.ref is None and s.tree is None:
        return None
    if s.tree is None:
        if s.impl_exc_type:
            return ('C03:rejects_valid:crash:%s' % s.impl_exc_type,
                    'derivable text made the parser raise %s: %s' % (s.impl_exc_type, s.impl_err))
        return ('C03:rejects_valid:' + template(s.impl_err),
                'derivable text rejected: %s' % s.impl_err)
    return ('C03:accepts_underivable:' + s.ref_err.kind,
            'text is not derivable (%s) but was accepted' % s.ref_err)


class FakeSide(object):
    def __init__(self, ci, cr, ref=True, tree=True, impl_err=None, ref_err=None):
        self.ci, self.cr = ci, cr
        self.ref = object() if ref else None
        self.tree = object() if tree else None
        self.impl_err = impl_err
        self.impl_exc_type = None
        self.ref_err = ref_err


def selfcheck(ctx):
    a = ('ES5Program', (('children', (('ExprStatement', (('expr', ('Identifier', (('value', 'a'),))),)),)),))
    b = ('ES5Program', (('children', (('ExprStatement', (('expr', ('Identifier', (('value', 'b'),))),)),)),))
    planted = [
        judge(FakeSide(a, b)),                                              # different tree
        judge(FakeSide(None, b, tree=False, impl_err="Unexpected 'x' at 1:1")),   # valid rejected
        judge(FakeSide(a, None, ref=False, ref_err=refjs.RefSyntaxError('expected_;', 3))),  # invalid accepted
    ]
    if not all(planted) or judge(FakeSide(a, a)) is not None:
        raise HarnessBroken('C03 oracle silent on a planted observation')
    # the reference model itself on fixed specification examples
    assert refjs.accepts('a = b + c\n(d + e).print()') and not refjs.accepts('{ 1 2 } 3')
    assert refjs.accepts('{ 1\n2 } 3') and not refjs.accepts('for (a; b\n)')
    assert not refjs.accepts('if (a > b)\nelse c = d') and refjs.accepts('return\na + b')
    return len(planted) + 6


class ProductionCoverage(object):
    """sys.monitoring PY_START on the p_* grammar functions (they must not be
    wrapped: ply orders them by co_firstlineno)."""

    def __init__(self, ctx):
        from calmjs.parse.parsers.es5 import Parser
        self.ctx = ctx
        self.alts = set()
        codes = []
        for name in dir(Parser):
            if name.startswith('p_') and name != 'p_error':
                f = getattr(Parser, name)
                if hasattr(f, '__code__'):
                    codes.append(f.__code__)
        self.cov = probe.Coverage(codes, self.on_start)

    def on_start(self, code, frame):
        p = frame.f_locals.get('p')
        if p is None:
            return
        try:
            sl = p.slice
            key = (sl[0].type, tuple(s.type for s in sl[1:]))
        except Exception:
            return
        self.alts.add(key)
        self.ctx.hit('production_reduced')

    def __enter__(self):
        self.cov.__enter__()
        return self

    def __exit__(self, *a):
        self.cov.__exit__(*a)
        total = None
        try:
            from calmjs.parse.parsers.es5 import Parser
            total = len(Parser().parser.productions) - 1
        except Exception:
            pass
        self.ctx.extra['production_alternatives_reduced__set'] = sorted(
            '%s -> %s' % (a, ' '.join(b) or 'empty') for a, b in self.alts)
        if total:
            self.ctx.extra['production_alternatives_total__max'] = total


def _parser_variants():
    return [('Parser(asttypes=<own factory>)', 'own_asttypes'), ('Parser(yacc_tracking=False)', 'no_tracking')]


def _variant_parser(which):
    from calmjs.parse.parsers.es5 import Parser
    if which == 'own_asttypes':
        from calmjs.parse.factory import AstTypesFactory
        from calmjs.parse.unparsers.es5 import pretty_print
        from calmjs.parse.walkers import ReprWalker
        return Parser(asttypes=AstTypesFactory(pretty_print, ReprWalker()))
    return Parser(yacc_tracking=False)


def check_text(ctx, text, origin, ntok, floor_tokens):
    s = work.both(text)
    ctx.hit('parse')
    ctx.hit('refjs')
    nontrivial = ntok >= floor_tokens
    if work.uncertain(s.ref, s.ref_err):
        # no verdict on acceptance; when both accept, the tree is still the one the grammar dictates
        ctx.count('oracle_uncertain')
        if s.tree is None or s.ref is None:
            ctx.case(text, False)
            return None
        ctx.count('oracle_uncertain:both_accept_trees_compared')
    if work.skip_known(ctx, text, s.ref):
        ctx.case(text, False)
        return None
    v = judge(s)
    outcome = ('accept/accept' if s.tree is not None and s.ref is not None else
               'reject/reject' if s.tree is None and s.ref is None else 'disagree')
    ctx.count(origin + ':' + outcome)
    ctx.case(text, nontrivial,
             sample={'origin': origin, 'text': text[:200], 'outcome': outcome}
             if (nontrivial and ctx.rng.random() < 0.01) else None)
    if not v and s.tree is not None and origin != 'enum' and (len(text) + ntok) % 3 == 0:
        # "the tree returned" by a parser constructed with its documented arguments: node classes from a factory
        # of the caller's (fresh classes of the same names), the LALR tables debugged / tracked or not.  Same text,
        # same tree.
        from calmjs.parse.exceptions import ECMASyntaxError
        for label, kw in _parser_variants()[(len(text) // 3) % 2::2]:
            ctx.hit('parser_variant')
            try:
                t2 = _variant_parser(kw).parse(text)
                c2 = vtree.canon_impl(t2)
            except ECMASyntaxError as e:
                c2 = 'rejected: %s' % e
            except RecursionError:
                continue
            if c2 != s.ci:
                ctx.violation('C03:tree_depends_on_parser_arguments:%s' % label, {'text': text, 'variant': label},
                              'parse(text) and %s.parse(text) disagree: %s\ninput: %r' % (
                                  label, vtree.first_diff(s.ci, c2) if not isinstance(c2, str) else c2, text[:300]))
                break
    if v:
        mech, detail = v
        # minimise under "same mechanism"
        def failing(t):
            try:
                s2 = work.both(t)
            except RecursionError:
                return False
            if work.uncertain(s2.ref, s2.ref_err):
                return False
            j = judge(s2)
            return j is not None and j[0] == mech
        small = text
        if len(text) > 12 and ctx.viol_count[mech] < 3:
            try:
                small = minimise_text(text, failing, 300)
            except Exception:
                small = text
        ctx.violation(mech, {'text': small, 'original': text if small != text else None},
                      '%s\ninput: %r' % (detail, small))
    return s


def enumerate_tokens(ctx, k):
    """all token strings of length 1..k; partitioned over shards by index"""
    n = 0
    idx = 0
    for L in range(1, k + 1):
        for combo in itertools.product(ALPHABET, repeat=L):
            idx += 1
            if idx % ctx.nshards != ctx.shard:
                continue
            text = ' '.join(combo)
            check_text(ctx, text, 'enum', L, 2)
            n += 1
            if not (n & 0xff) and ctx.out_of_time():
                ctx.note('enumeration truncated by time in shard %d' % ctx.shard)
                return False
    return True


def run(ctx):
    with ProductionCoverage(ctx):
        k = ctx.pick(3, 4)
        complete = enumerate_tokens(ctx, k)
        ctx.extra['exhaustive'] = False   # only part (a) is exhaustive; see enumeration_complete
        ctx.extra['enumeration_complete'] = complete
        ctx.extra['enumeration_length'] = k
        ctx.extra['enumeration_alphabet'] = ALPHABET

        # reserved words as property names and accessor layouts, systematically (see vk/gen/products.py)
        from vk.gen import products
        for idx, (key, text) in enumerate(products.lexical_products()):
            if idx % ctx.nshards != ctx.shard or (ctx.tier == 'quick' and (idx // ctx.nshards) % 2):
                continue
            check_text(ctx, text, 'lexical_product', 9, 8)
            ctx.hit('lexical_product')

        # identifiers spelled with escape sequences: well formed and allowed, well formed but standing for a
        # character that may not appear there, malformed - at every position of a name
        if ctx.shard == 2 % ctx.nshards:
            for text in work.identifier_escape_texts():
                check_text(ctx, text, 'identifier_escape', 9, 8)
                ctx.hit('identifier_escape')
            for text in work.multiline_token_texts():
                check_text(ctx, text, 'multiline_token', 9, 8)
                ctx.hit('multiline_token')
        # numeric literals: every string of up to 4 (thorough: 5) characters over 0 1 7 8 9 . e x a - + as the right side of an
        # assignment - which spellings are one literal, which are two tokens, which are nothing (7.8.3; the character after a
        # literal must not be a digit or an identifier start)
        idx = 0
        for L in range(1, ctx.pick(4, 5) + 1):
            for combo in itertools.product('01789.exa-+', repeat=L):
                idx += 1
                if idx % ctx.nshards == ctx.shard:
                    check_text(ctx, 'x = %s;' % ''.join(combo), 'numeric_spelling', 4, 4)
                    ctx.hit('numeric_spelling')
        # a backslash in a string literal followed by every ASCII character and a selection of others
        for idx, text in enumerate(work.string_escape_texts()):
            if idx % ctx.nshards == ctx.shard:
                check_text(ctx, text, 'string_escape', 5, 4)
                ctx.hit('string_escape')

        def opts_fn(i, rng):
            return jsgen.Opts(clean=(i % 3 != 0), unicode_idents=(i % 5 == 0),
                              string_continuations=(i % 4 == 0))
        progs = work.Programs(ctx, ctx.per_shard(330, 6500), opts_fn=opts_fn, valid_only=False)
        rng = ctx.rng
        for text, meta in progs:
            toks = meta['toks']
            ntok = len(toks) if toks else max(8, len(text) // 4)
            check_text(ctx, text, meta['origin'], ntok, 8)
            if toks:
                for _ in range(2):
                    mt = jsgen.mutate_tokens(toks, rng)
                    check_text(ctx, jsgen.render(mt, 'space'), 'mutant', len(mt), 8)
            if ctx.out_of_time():
                break
        progs.report()


def replay(ctx, witness):
    text = witness['text']
    s = work.both(text)
    ctx.hit('parse')
    v = judge(s)
    if v and not (work.uncertain(s.ref, s.ref_err) and (s.tree is None or s.ref is None)):
        ctx.violation(v[0], {'text': text}, v[1] + '\ninput: %r' % text)
    if witness.get('original'):
        s = work.both(witness['original'])
        v = judge(s)
        if v and not work.uncertain(s.ref, s.ref_err):
            ctx.violation(v[0], {'text': witness['original']}, v[1])


def canary(ctx, spec):
    s = work.both(spec['text'])
    v = judge(s)
    return v[0] if v else None

"""
C08 - emitted fragments carry the true source position of their token.

Fragment monitor consuming the generators returned by the real printers
(pretty, minify, minify+drop_semi, obfuscating): every StreamFragment with a
truthy line and column must point, in the source file it names, at a token
equal to the fragment's token (or to the recorded original name of a renamed
identifier).  Semicolons the lexer synthesised (observed through a hook on
``_create_semi_token``) are the only exemption.
"""

import re

from vk.boot import HarnessBroken
from vk import work, printing, probe
from vk.gen import jsgen
from vk.ref import refjs
from vk.mon.c11 import Synth

LEVEL = 'exploration'
RULE = ('inputs: corpus and derivations in 5 layouts (multi-line tokens, CRLF, U+2028/9), parsed with and without '
        'comment capture, every fourth also by Parser(yacc_tracking=False); printers: pretty, minify, minify+drop_semi, minify+obfuscate(+globals); multi-file: 2-4 '
        'programs with different source paths and leading padding printed separately, in sequence and as one combined '
        'tree; a case = (text or file set, printer, capture flag); non-trivial = at least 5 explicitly positioned '
        'fragments; distinct by that triple.')
ASSUMPTIONS = ['the token at an offset of a source is taken from the refjs token/comment log of that source; a fragment '
               'without position (None or the implied 0:0) is legal and only counted']
BUDGET_S = {'quick': 60, 'thorough': 700}
REQUIRED_HITS = ['fragments_positioned', 'fragments_checked', 'renamed_checked', 'multi_source_checked', 'three_level_nesting', 'parser_without_yacc_tracking']
FLOOR = {'quick': 1500, 'thorough': 20000}


class Source(object):
    """reference view of one source file"""

    def __init__(self, path, text, synth):
        self.path = path
        self.text = text
        self.synth = set(synth)
        self.table = refjs.LineTable(text)
        self.res, self.err = work.run_ref(text)
        self.by_start = {}
        if self.res is not None:
            for t in self.res.tokens:
                self.by_start[t.start] = t.value
            for c in self.res.comments:
                self.by_start[c.start] = c.text


def check_fragment(frag, sources, default_source):
    """the oracle for one fragment; returns (mech, detail) / None / 'unpositioned'"""
    text, line, col, name, source = frag
    if not line or not col:
        return 'unpositioned'
    src = sources.get(source if isinstance(source, str) else default_source)
    if src is None:
        return ('C08:unknown_source', 'fragment %r names source %r which is none of %r' % (
            text[:20], source, sorted(k for k in sources if k)))
    off = src.table.offset(line, col)
    if off is None or off < 0 or off > len(src.text) or src.table.linecol(off) != (line, col):
        return ('C08:position_outside_source', 'fragment %r carries %s:%s which is not a position of %r' % (
            text[:20], line, col, src.path))
    tok = src.by_start.get(off)
    want = name if name is not None else text
    if tok is None:
        if text == ';' and off in src.synth:
            return None
        return ('C08:not_at_a_token', 'fragment %r carries %s:%s of %r but no token starts there (source: %r)' % (
            text[:20], line, col, src.path, src.text[off:off + 12]))
    # (the source text there has to *begin with* the fragment's token: a string whose line continuations the
    #  minifier removed is a different text from its source token and must not carry that token's position)
    ok = (tok == want or tok == want.strip() or
          (want and set(want) == {','} and tok == ','))
    if not ok:
        if text == ';' and off in src.synth:
            return None      # a semicolon supplied by automatic insertion
        kind = 'renamed_identifier' if name is not None else 'token'
        return ('C08:wrong_%s_position' % kind,
                'fragment %r%s carries %s:%s of %r; the token there is %r' % (
                    text[:20], '' if name is None else ' (original name %r)' % name, line, col, src.path, tok[:20]))
    return None


def selfcheck(ctx):
    s = Source('a.js', 'var x = 1;\nfoo(bar)', [])
    F = lambda *a: tuple(a)
    planted = [check_fragment(F('x', 1, 6, None, 'a.js'), {'a.js': s}, 'a.js'),
               check_fragment(F('foo', 1, 1, None, 'a.js'), {'a.js': s}, 'a.js'),
               check_fragment(F('a', 2, 5, 'baz', 'a.js'), {'a.js': s}, 'a.js'),
               check_fragment(F('foo', 2, 1, None, 'b.js'), {'a.js': s}, 'a.js'),
               check_fragment(F(';', 2, 2, None, 'a.js'), {'a.js': s}, 'a.js'),
               check_fragment(F('x', 7, 1, None, 'a.js'), {'a.js': s}, 'a.js')]
    ok = [check_fragment(F('x', 1, 5, None, 'a.js'), {'a.js': s}, 'a.js'),
          check_fragment(F('a', 2, 5, 'bar', 'a.js'), {'a.js': s}, 'a.js'),
          check_fragment(F('foo', 2, 1, None, None), {'a.js': s}, 'a.js')]
    if not all(isinstance(p, tuple) for p in planted) or any(ok):
        raise HarnessBroken('C08 oracle failed on planted observations %r %r' % (planted, ok))
    return len(planted) + len(ok)


def printers():
    from calmjs.parse.unparsers.es5 import pretty_printer, minify_printer, Unparser
    from calmjs.parse import rules
    from calmjs.parse.lexers.es5 import Lexer
    from calmjs.parse.handlers.core import token_handler_str_default, token_handler_unobfuscate
    return [
        ('pretty', lambda: pretty_printer('  ')),
        ('minify', lambda: minify_printer()),
        ('minify_drop_semi', lambda: minify_printer(drop_semi=True)),
        ('minify_obfuscate', lambda: minify_printer(obfuscate=True)),
        ('minify_obfuscate_globals', lambda: minify_printer(obfuscate=True, obfuscate_globals=True, drop_semi=True)),
        # the token handler is a constructor argument that overrides the one the rules bring along: the plain
        # handler under renaming rules (renamed text, so no explicit position may be claimed for it), the
        # un-obfuscating one under rules that rename nothing, both under the indenting rules
        ('obfuscate_with_plain_token_handler', lambda: Unparser(
            rules=(rules.minify(drop_semi=False), rules.obfuscate(obfuscate_globals=True,
                                                                   reserved_keywords=Lexer.keywords_dict.keys())),
            token_handler=token_handler_str_default)),
        ('indent_with_unobfuscate_token_handler', lambda: Unparser(
            rules=(rules.indent(indent_str='\t'),), token_handler=token_handler_unobfuscate)),
        ('obfuscate_indent_plain_token_handler', lambda: Unparser(
            rules=(rules.obfuscate(reserved_keywords=Lexer.keywords_dict.keys()), rules.indent(indent_str=' ')),
            token_handler=token_handler_str_default)),
    ]


def run_fragments(ctx, fragments, sources, default_source, key, origin, sample_text, order=True):
    n_pos = n_unpos = n_ren = 0
    viol = []
    last = {}
    current = default_source
    for frag in fragments:
        # a fragment without a source of its own belongs to the source of the
        # previous fragment that named one (the documented stream semantics)
        if isinstance(frag[4], str):
            if frag[4] != current:
                last.pop(frag[4], None)      # the stream moves to (or back to) this file: order starts afresh
            current = frag[4]
        r = check_fragment(tuple(frag), sources, current)
        if isinstance(r, tuple) and frag[4] is None and len(sources) > 1:
            # mechanism attribution: a fragment that names no source of its own and is right for
            # *another* file of the set has been attributed to the wrong file by inheritance
            for other in sources:
                if other != current and check_fragment(tuple(frag), sources, other) is None:
                    r = ('C08:sourceless_fragment_inherits_wrong_file',
                         'fragment %r at %s:%s names no source and is the first positioned fragment after the '
                         'stream moved from %r to %r: it inherits the former' % (frag[0], frag[1], frag[2], current, other))
                    break
        if r == 'unpositioned':
            n_unpos += 1
            continue
        n_pos += 1
        if frag[3] is not None:
            n_ren += 1
        if r is not None:
            viol.append(r)
        elif order and not frag[0].startswith(('//', '/*')) and (isinstance(frag[4], str) or len(sources) == 1):
            # printing keeps the source order of the tokens and emits each once: a fragment that is
            # right about *a* token of its kind but not about its own one shows as a repeat or a step back
            # (comments are hoisted in front of the node that holds them and are exempt)
            src = sources.get(current)
            off = src.table.offset(frag[1], frag[2])
            if frag[0] == ';' and off in src.synth:
                continue     # a semicolon the lexer synthesised sits at the offset of the token after it
            if off <= last.get(current, -1):
                viol.append(('C08:token_position_repeated_or_out_of_order',
                             'fragment %r carries %s:%s of %r, at or before the position of an earlier fragment of '
                             'this output (offset %d after %d)' % (frag[0][:20], frag[1], frag[2], current, off,
                                                                   last[current])))
            last[current] = max(off, last.get(current, -1))
    ctx.hit('fragments_positioned', n_pos)
    ctx.hit('fragments_checked', n_pos)
    ctx.hit('renamed_checked', n_ren)
    ctx.count('fragments_unpositioned', n_unpos)
    ctx.case(key, n_pos >= 5, sample={'origin': origin, 'case': str(key[1:])[:80], 'text': sample_text[:120],
                                      'positioned_fragments': n_pos, 'renamed': n_ren}
             if (n_pos >= 5 and ctx.rng.random() < 0.002) else None)
    return viol


_UESC = re.compile(r'\\u([0-9a-fA-F]{4})')


def _decode_names(c):
    if isinstance(c, str):
        return _UESC.sub(lambda m: chr(int(m.group(1), 16)), c) if '\\u' in c else c
    if isinstance(c, (tuple, list)):
        return tuple(_decode_names(x) for x in c)
    return c


def parse_source(ctx, synth, path, text, with_comments, variant=None):
    synth.pos = set()
    try:
        if variant == 'no_yacc_tracking':
            # a parser that does not ask ply for the positions of non-terminals: fewer fragments have a position, those
            # that have one still have to be right
            from calmjs.parse.parsers.es5 import Parser
            from calmjs.parse.exceptions import ECMASyntaxError
            try:
                tree = Parser(yacc_tracking=False, with_comments=with_comments).parse(text)
            except ECMASyntaxError:
                tree = None
            ctx.hit('parser_without_yacc_tracking')
        else:
            tree, err = work.run_impl(text, with_comments)
    except Exception:
        return None, None
    if tree is None:
        return None, None
    tree.sourcepath = path
    src = Source(path, text, synth.pos)
    if src.res is not None:
        from vk import tree as vtree
        a, b = vtree.canon_impl(tree), refjs.canon(src.res.tree)
        if a != b:
            # C03's to report.  One disagreement still leaves this statement decidable: the same tree up to the
            # spelling of names (a name stored decoded, 'abc' for a written '\u0061bc'): the fragments then claim
            # a token the source does not have there
            if _decode_names(a) != _decode_names(b):
                ctx.count('skipped:tree_disagreement')
                return None, None
            ctx.count('tree_agrees_up_to_escape_spelling')
    return tree, src


def check_single(ctx, synth, text, with_comments, origin, variant=None):
    res, rerr = work.run_ref(text)
    if work.uncertain(res, rerr) or work.skip_known(ctx, text, res):
        return
    tree, src = parse_source(ctx, synth, 'src/one.js', text, with_comments, variant)
    if tree is None or src is None or src.res is None:
        ctx.count('skipped:not_accepted_by_both')
        return
    for pname, make in printers():
        try:
            frags = list(make()(tree))
        except RecursionError:
            ctx.count('skipped:resource_limit')
            continue
        except Exception as e:
            ctx.count('printer_raised:%s' % type(e).__name__)      # C01 / C02 report that; no fragments to judge
            continue
        viol = run_fragments(ctx, frags, {'src/one.js': src}, 'src/one.js',
                             (text, pname, with_comments, variant), origin, text)
        seen = set()
        for mech, detail in viol:
            if mech in seen:
                continue
            seen.add(mech)
            ctx.violation(mech + (':' + variant if variant else ''),
                          {'text': text, 'printer': pname, 'with_comments': with_comments, 'variant': variant},
                          '%s\nprinter %s, comment capture %s%s\ninput: %r' % (
                              detail, pname, with_comments, ', parser variant ' + variant if variant else '', text[:300]))
        if viol:
            break


def check_multi(ctx, synth, texts, origin):
    """several files: printed in sequence, and combined into one tree"""
    from calmjs.parse.parsers.es5 import asttypes
    trees, sources = [], {}
    for i, text in enumerate(texts):
        path = 'dir%d/file%d.js' % (i % 2, i)
        padded = ('\n' * i) + (' ' * (2 * i)) + text
        tree, src = parse_source(ctx, synth, path, padded, False)
        if tree is None or src is None or src.res is None:
            return
        if work.uncertain(src.res, src.err) or work.skip_known(ctx, padded, src.res):
            return
        trees.append(tree)
        sources[path] = src
    for pname, make in printers()[:4]:
        printer = make()
        frags = []
        try:
            for t in trees:
                frags.extend(printer(t))
            # one combined program whose statements come from different files
            combined = asttypes.ES5Program([])
            kids = []
            for t in trees:
                for c in t.children():
                    c.sourcepath = t.sourcepath
                    kids.append(c)
            combined._children_list = kids
            frags2 = list(make()(combined))
            # a statement of the second file nested in the middle of the first file's program:
            # after it the stream must name the first file again
            frags3 = []
            a_kids = list(trees[0].children())
            b_kids = list(trees[1].children())
            if len(a_kids) >= 2 and b_kids:
                nested = asttypes.ES5Program([])
                nested.sourcepath = trees[0].sourcepath
                for c in a_kids:
                    c.sourcepath = None
                b_kids[0].sourcepath = trees[1].sourcepath
                nested._children_list = [a_kids[0], b_kids[0]] + a_kids[1:]
                frags3 = list(make()(nested))
            # three levels: a block of file B inside the program of file A, holding a statement of file A
            # between two statements of B (what inlining a helper back into a wrapped module produces)
            if len(a_kids) >= 3 and len(b_kids) >= 2:
                for c in a_kids + b_kids:
                    c.sourcepath = None
                inner_a = a_kids[1]
                inner_a.sourcepath = trees[0].sourcepath
                blk = asttypes.Block([b_kids[0], inner_a, b_kids[1]])
                blk.sourcepath = trees[1].sourcepath
                deep = asttypes.ES5Program([])
                deep.sourcepath = trees[0].sourcepath
                deep._children_list = [a_kids[0], blk] + a_kids[2:]
                try:
                    frags3 += list(make()(deep))
                    ctx.hit('three_level_nesting')
                finally:
                    inner_a.sourcepath = None
            # and at expression level: (expression of file B), (expression of file A) in one statement of A
            ea = [c for c in a_kids if type(c).__name__ == 'ExprStatement']
            eb = [c for c in b_kids if type(c).__name__ == 'ExprStatement']
            if ea and eb:
                be, ae = eb[0].expr, ea[0].expr
                be.sourcepath = trees[1].sourcepath
                st = asttypes.ExprStatement(asttypes.Comma(left=be, right=ae))
                prog = asttypes.ES5Program([])
                prog.sourcepath = trees[0].sourcepath
                prog._children_list = [st]
                try:
                    frags3 += list(make()(prog))
                finally:
                    be.sourcepath = None
        except RecursionError:
            ctx.count('skipped:resource_limit')
            continue
        except Exception as e:
            ctx.count('printer_raised:%s' % type(e).__name__)
            continue
        finally:
            for t in trees:
                for c in t.children():
                    c.sourcepath = None
        key = ('multi', tuple(texts), pname)
        viol = run_fragments(ctx, frags, sources, None, key + ('sequence',), origin, texts[0])
        viol += run_fragments(ctx, frags2, sources, None, key + ('combined',), origin, texts[0])
        if frags3:
            viol += run_fragments(ctx, frags3, sources, None, key + ('nested',), origin, texts[0], order=False)
        ctx.hit('multi_source_checked')
        seen = set()
        for mech, detail in viol:
            if mech in seen:
                continue
            seen.add(mech)
            ctx.violation(mech, {'texts': list(texts), 'printer': pname},
                          '%s\nprinter %s, %d source files\ninputs: %r' % (detail, pname, len(texts),
                                                                          [t[:80] for t in texts]))


def run(ctx):
    synth = Synth(ctx).install()
    try:
        def opts_fn(i, r):
            return jsgen.Opts(clean=True, unicode_idents=(i % 4 == 0), string_continuations=(i % 3 == 0),
                              allow_with=False)
        progs = work.Programs(ctx, ctx.per_shard(160, 3500), opts_fn=opts_fn)
        recent = []
        for i, (text, meta) in enumerate(progs):
            check_single(ctx, synth, text, i % 3 == 1 or meta['layout'] == 'random_comments', meta['origin'])
            if i % 4 == 2:
                check_single(ctx, synth, text, i % 8 == 2, meta['origin'], variant='no_yacc_tracking')
            recent.append(text)
            if len(recent) >= 2 + (i % 3):
                check_multi(ctx, synth, recent, 'multi')
                recent = []
            if ctx.out_of_time():
                break
        progs.report()
    finally:
        synth.remove()


def replay(ctx, witness):
    synth = Synth(ctx).install()
    try:
        if 'texts' in witness:
            check_multi(ctx, synth, witness['texts'], 'replay')
        else:
            check_single(ctx, synth, witness['text'], bool(witness.get('with_comments')), 'replay', variant=witness.get('variant'))
    finally:
        synth.remove()


def canary(ctx, spec):
    sub = type(ctx)(ctx.prop, ctx.tier, ctx.seed, 0, 1, 30)
    sub._suppressed = set()
    synth = Synth(sub).install()
    try:
        if 'texts' in spec:
            check_multi(sub, synth, spec['texts'], 'canary')
        else:
            check_single(sub, synth, spec['text'], bool(spec.get('with_comments')), 'canary')
    finally:
        synth.remove()
    return next(iter(sub.viol_count), None)

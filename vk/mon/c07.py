"""
C07 - name obfuscation is a consistent, capture-free renaming.

Both the obfuscated and the un-obfuscated output of the same printer are read
by the reference parser; refscope resolves every identifier occurrence
(document order pairs them one-to-one) to a binding or to "free".  The oracle
checks that the renaming is a function on bindings, that re-resolving the
*output* yields the same partition of occurrences (this is what detects
capture), that free names, property names and protected globals are unchanged,
that no generated name is a reserved word, and that only identifiers changed.
"""

import re
from vk.boot import HarnessBroken
from vk import work, probe
from vk.gen import jsgen
from vk.ref import refjs, refscope

LEVEL = 'exploration'
RULE = ('programs: scope-shape generator (nested function declarations / named and anonymous expressions, parameters '
        'shadowing outer names, var hoisted after use, var re-declaring a catch parameter, closures over grandparents, '
        'free names equal to the first names the generator hands out, labels, accessor bodies; scopes with up to 3000 '
        'locals so that two- and three-letter names incl. do/if/in/for/new/var/try occur, with catch clauses, nested '
        'functions and a named function expression inside the crowded scope, which is a function or the global one), Annex A derivations and the '
        'corpus, all without with/eval; configurations {obfuscate_globals} x {shadow_funcname} x {minify, '
        'minify+drop_semi, Unparser(obfuscate, indent)}; every second case on a printer object that has already printed another tree; every fifth scope program with some occurrences of declared names spelled with a unicode escape; every fourth with a second output of the same printer object alive and consumed in turns; a case = (program, configuration); non-trivial = at least one '
        'binding was renamed; distinct by that pair.')
ASSUMPTIONS = ['refscope implements ES5 scoping (10.2, 10.5, 12.14, 13); programs using with / direct eval are out of scope',
               'the rule composition passes reserved_keywords exactly as minify_printer does']
BUDGET_S = {'quick': 100, 'thorough': 900}
REQUIRED_HITS = ['obfuscated_print', 'occurrences_checked', 'Obfuscator.finalize', 'NameGenerator.next', 'reused_printer', 'interleaved_outputs', 'escaped_spelling']
FLOOR = {'quick': 1500, 'thorough': 20000}

RESERVED = refjs.RESERVED


def configs():
    from calmjs.parse.unparsers.es5 import Unparser, minify_printer
    from calmjs.parse import rules
    from calmjs.parse.lexers.es5 import Lexer
    out = []
    for og in (False, True):
        for sf in (False, True):
            for shape in ('minify', 'minify_drop_semi', 'indent'):
                def make(obf, og=og, sf=sf, shape=shape):
                    if shape == 'indent':
                        rs = [rules.indent('  ')]
                        if obf:
                            rs = [rules.obfuscate(obfuscate_globals=og, shadow_funcname=sf,
                                                  reserved_keywords=Lexer.keywords_dict.keys())] + rs
                        return Unparser(rules=tuple(rs))
                    return minify_printer(obfuscate=obf, obfuscate_globals=og, shadow_funcname=sf,
                                          drop_semi=(shape == 'minify_drop_semi'))
                out.append((('globals' if og else 'noglobals') + '/' + ('shadow' if sf else 'noshadow') + '/' + shape,
                            og, make))
    return out


def judge(plain_res, plain_scope, obf_res, obf_scope, obfuscate_globals):
    """the oracle over one pair of outputs (both read by refjs/refscope)"""
    pt, ot = plain_res.tokens, obf_res.tokens
    if len(pt) != len(ot):
        return ('C07:token_count_differs', 'un-obfuscated output has %d tokens, obfuscated %d' % (len(pt), len(ot))), 0
    pocc = dict((o.tok, o) for o in plain_scope.occ)
    oocc = dict((o.tok, o) for o in obf_scope.occ)
    renamed = 0
    new_name_of = {}
    plain_class = {}
    obf_class = {}
    for i, (a, b) in enumerate(zip(pt, ot)):
        po = pocc.get(i)
        if po is None or po.role == 'prop':
            if a.value != b.value:
                what = 'property name' if po is not None else 'non-identifier token'
                return ('C07:%s_changed' % what.replace(' ', '_').replace('-', '_'),
                        '%s %r became %r (token %d)' % (what, a.value, b.value, i)), renamed
            continue
        oo = oocc.get(i)
        if oo is None or b.kind != 'name':
            return ('C07:identifier_became_other_token', 'identifier %r became %s %r' % (a.value, b.kind, b.value)), renamed
        if b.value in RESERVED:
            return ('C07:reserved_word_generated', 'identifier %r was renamed to the reserved word %r' % (a.value, b.value)), renamed
        if po.role == 'label':
            if po.binding is None:
                continue       # break/continue without an enclosing label of that name: nothing to preserve
            # (the same label may be spelled with and without escapes: compare the names, not the spellings)
            if new_name_of.setdefault(po.binding, refscope._name(b.value)) != refscope._name(b.value):
                return ('C07:label_renamed_inconsistently', 'the label %r and a jump to it became %r and %r' % (
                    a.value, new_name_of[po.binding], b.value)), renamed
            if oo.role != 'label' or oo.binding is None:
                return ('C07:label_target_lost', 'a jump to label %r (now %r) has no enclosing label of that name any '
                        'more' % (a.value, b.value)), renamed
            if plain_class.setdefault(po.binding, oo.binding) != oo.binding or \
                    obf_class.setdefault(oo.binding, po.binding) != po.binding:
                return ('C07:label_target_changed', 'a jump to label %r (now %r) targets a different statement after '
                        'renaming' % (a.value, b.value)), renamed
            continue
        if po.binding is None:
            if a.value != b.value:
                return ('C07:free_name_changed', 'the undeclared (free) name %r was renamed to %r' % (a.value, b.value)), renamed
            if oo.binding is not None:
                return ('C07:free_name_captured', 'the free name %r is captured by a binding in the obfuscated output (scope %s)'
                        % (a.value, oo.scope_kind)), renamed
            continue
        if po.scope_kind == 'global' and not obfuscate_globals and a.value != b.value:
            return ('C07:global_renamed', 'the top-level name %r was renamed to %r without obfuscate_globals' % (
                a.value, b.value)), renamed
        if a.value != b.value:
            renamed += 1
        # (one variable may be spelled with and without escapes, in the source and - where it is not renamed - in the
        # output: the names are compared, not the spellings)
        prev = new_name_of.setdefault(po.binding, refscope._name(b.value))
        if prev != refscope._name(b.value):
            return ('C07:binding_renamed_inconsistently', 'occurrences of the variable %r became %r and %r' % (
                a.value, prev, b.value)), renamed
        # same partition after renaming
        if oo.binding is None:
            return ('C07:bound_name_became_free', 'an occurrence of the variable %r (renamed %r) resolves to no '
                    'declaration in the obfuscated output' % (a.value, b.value)), renamed
        c = plain_class.setdefault(po.binding, oo.binding)
        if c != oo.binding:
            return ('C07:occurrences_split', 'occurrences of the variable %r resolve to different variables after '
                    'renaming (%r)' % (a.value, b.value)), renamed
        c2 = obf_class.setdefault(oo.binding, po.binding)
        if c2 != po.binding:
            return ('C07:variables_merged', 'after renaming, %r denotes what were two different variables (%r and another): '
                    'capture' % (b.value, a.value)), renamed
    return None, renamed


def selfcheck(ctx):
    def pair(plain, obf, og=False):
        pr, orr = refjs.parse(plain), refjs.parse(obf)
        return judge(pr, refscope.resolve(pr), orr, refscope.resolve(orr), og)[0]
    base = 'function f(x, y) { var z = x + y + g; return function (q) { return z + q + h; }; }'
    good = 'function f(a, b) { var c = a + b + g; return function (a) { return c + a + h; }; }'
    planted = [pair(base, good.replace('+ g', '+ c')),                       # free name changed
               pair(base, good.replace('function (a) { return c + a', 'function (c) { return c + c')),   # capture
               pair(base, good.replace('var c = a', 'var c = b')),           # inconsistent
               pair(base, good.replace('var c', 'var in') .replace('c +', 'in +') if False else 'function f(a, b) { var c = a + b + g; return function (a) { return c + a + h } }'),
               pair('var top = 1; function f() { return top; }', 'var a = 1; function f() { return a; }'),  # global renamed
               pair('o.prop = 1;', 'o.a = 1;'),
               pair('function f(x) { return x.x; }', 'function f(a) { return a.a; }')]
    ok = [pair(base, good), pair('var top = 1; function f() { return top; }', 'var a = 1; function f() { return a; }', True)]
    if not all(p is not None for p in planted) or any(ok):
        raise HarnessBroken('C07 oracle failed on planted observations %r %r' % (planted, ok))
    return len(planted) + len(ok)


FIRST_NAMES = ['a', 'b', 'c', 'd', 'e', 'f', 'g', 'h', 'i', 'j', 'aa', 'ab', 'A', '_', 'ba']
WORDS = ['alpha', 'beta', 'gamma', 'delta', 'count', 'total', 'index', 'item', 'value', 'result', 'self', 'callback',
         'options', 'data', 'node', 'list', 'tmp', 'left', 'right', 'acc', 'fn', 'ctx', 'arguments2', 'undefined2']


def scope_program(rng, big=0):
    """program text with a random scope shape (no with/eval)"""
    out = []
    counter = [0]

    def fresh():
        counter[0] += 1
        r = rng.random()
        if r < 0.35:
            return rng.choice(FIRST_NAMES)
        if r < 0.8:
            return rng.choice(WORDS)
        return 'v%d' % counter[0]

    def expr(visible, depth=0):
        r = rng.random()
        pool = list(visible) if visible else ['x']
        if r < 0.45 or depth > 2:
            k = rng.random()
            if k < 0.6:
                return rng.choice(pool)
            if k < 0.8:
                return rng.choice(FIRST_NAMES + WORDS)         # possibly free
            if k < 0.9:
                return rng.choice(pool) + '.' + rng.choice(FIRST_NAMES + WORDS)
            return str(rng.randint(0, 9))
        if r < 0.7:
            return '%s %s %s' % (expr(visible, depth + 1), rng.choice(['+', '-', '*', '||', '&&', '<', '===']),
                                 expr(visible, depth + 1))
        if r < 0.8:
            return '%s(%s)' % (rng.choice(pool), expr(visible, depth + 1))
        if r < 0.87:
            return '{%s: %s, %s: %s}' % (rng.choice(FIRST_NAMES), expr(visible, depth + 1), rng.choice(WORDS),
                                         expr(visible, depth + 1))
        if r < 0.94:
            return func(visible, depth + 1, expression=True)
        return '[%s, %s]' % (expr(visible, depth + 1), expr(visible, depth + 1))

    def body(visible, depth, nstmt):
        local = []
        stmts = []
        for _ in range(nstmt):
            r = rng.random()
            vis = visible + local
            if r < 0.3:
                n = fresh()
                stmts.append(('var %s = %s;' % (n, expr(vis)), n))
                local.append(n)
            elif r < 0.4 and vis:
                # use before the var that declares it (hoisting)
                n = fresh()
                stmts.append(('%s = %s; var %s;' % (n, expr(vis), n), n))
                local.append(n)
            elif r < 0.55 and depth < 4:
                stmts.append((func(vis, depth + 1, expression=False), None))
            elif r < 0.65:
                p = rng.choice(vis + FIRST_NAMES) if rng.random() < 0.5 else fresh()
                q = rng.random()
                if q < 0.15:
                    inner = 'var %s = %s;' % (p, expr(vis + [p]))
                elif q < 0.4 or depth >= 4:
                    inner = '%s(%s);' % (rng.choice(vis or ['f']), p)
                elif q < 0.7:
                    # a function (with names of its own) in the catch block that uses the catch parameter
                    a, b = fresh(), fresh()
                    inner = '%s(function (%s, %s) { var %s = %s; return %s(%s, %s); });' % (
                        rng.choice(vis or ['f']), a, b, fresh(), expr(vis + [p, a, b]), a, p, b)
                elif q < 0.85:
                    # a catch in a catch, both parameters used inside
                    p2 = fresh()
                    inner = 'try { %s(%s); } catch (%s) { %s(%s, %s); }' % (
                        rng.choice(vis or ['f']), p, p2, rng.choice(vis or ['g']), p, p2)
                else:
                    inner = body(vis + [p], depth + 1, rng.randint(1, 3))[0]
                stmts.append(('try { %s; } catch (%s) { %s }' % (expr(vis), p, inner), None))
            elif r < 0.72:
                lab = rng.choice(['outer', 'loop', 'a', 'b', rng.choice(vis) if vis else 'l'])
                stmts.append(('%s: for (var %s = 0; %s < 2; %s++) { if (%s) break %s; else continue %s; }' % (
                    lab, 'k', 'k', 'k', expr(vis + ['k']), lab, lab), 'k'))
                local.append('k')
            elif r < 0.8:
                n = fresh()
                stmts.append(('for (var %s in %s) { %s; }' % (n, expr(vis), expr(vis + [n])), n))
                local.append(n)
            elif r < 0.86:
                stmts.append(('var %s = {get %s() { return %s; }, set %s(%s) { %s = %s; }};' % (
                    fresh(), rng.choice(WORDS), expr(vis), rng.choice(WORDS), 'w', rng.choice(vis or ['q']), 'w'), None))
            else:
                stmts.append(('%s;' % expr(vis), None))
        return ' '.join(s for s, _ in stmts), local

    def func(visible, depth, expression):
        name = fresh()
        params = []
        for _ in range(rng.choice([0, 1, 1, 2, 3])):
            p = rng.choice(visible) if (visible and rng.random() < 0.3) else fresh()
            if p not in params:
                params.append(p)
        vis = visible + params
        if expression:
            named = rng.random() < 0.5
            head = 'function %s(%s)' % (name, ', '.join(params)) if named else 'function (%s)' % ', '.join(params)
            if named:
                vis = vis + [name]
        else:
            head = 'function %s(%s)' % (name, ', '.join(params))
            visible.append(name)
            vis = vis + [name]
        b, _ = body(vis, depth, rng.randint(1, 4))
        ret = ' return %s;' % expr(vis) if rng.random() < 0.7 else ''
        return '%s { %s%s }' % (head, b, ret)

    top, _ = body([], 0, rng.randint(2, 5))
    if big:
        names = ['n%d' % i for i in range(big)]
        # some of them with one- and two-letter spellings, used rarely (so that they are renamed late, when the
        # generated names have grown past them) and some spelled like the first generated names
        for k, short in enumerate(['i', 'k', 'n', 'a', 'b', 'z', 'ab', 'Z_', '$', 'a0']):
            if 10 * (k + 1) < big:
                names[big - 10 * (k + 1)] = short
        longs = [n for n in names if len(n) > 2]
        # the long names are used more often than the short ones: the short ones are renamed after them
        refs = ' + '.join(rng.sample(longs, min(70, len(longs))) + [n for n in names if len(n) <= 2][:3])
        # every kind of scope the renamer knows, nested in the crowded one (their names are chosen among what
        # hundreds of siblings left over: the reserved words the generator had to step over are the holes)
        inner = (' try { %s(); } catch (err) { %s = err; var viaCatch = function (p) { return p + err + %s; }; }'
                 ' try { %s(); } catch (e2) { try { e2(); } catch (e3) { %s = e2 + e3; } }'
                 ' function helper(q) { var r = q + %s; return r; }'
                 ' var fe = function named(s) { return s ? named(s - 1) : %s; };' % tuple(rng.sample(longs, 7)))
        if rng.random() < 0.5:
            top += ' function big(%s) { var %s;%s return %s + a + b + aa + do_ + if_; }' % (
                ', '.join(names[:3]), ', '.join(names[3:]), inner, refs)
        else:
            # the crowded scope is the global one (renamed with obfuscate_globals)
            top += ' var %s;%s use(%s);' % (', '.join(names), inner, refs)
    return top


_DECL = re.compile(r'\b(?:var|function)\s+([A-Za-z_$][A-Za-z0-9_$]*)|[(,]\s*([A-Za-z_$][A-Za-z0-9_$]*)\s*(?=[,)]\s*[,){])')


def escape_some(text, rng):
    """the same program with some occurrences of one or two of its declared names spelled with a unicode escape (7.6: the same
    name; a renaming has to treat both spellings as one variable)"""
    names = sorted(set(a or b for a, b in _DECL.findall(text)) - jsgen.RESERVED - {'get', 'set', ''})
    if not names:
        return text
    for name in rng.sample(names, min(2, len(names))):
        k = rng.randrange(len(name))
        esc = name[:k] + '\\u%04x' % ord(name[k]) + name[k + 1:]
        n = [0]

        def sub(m):
            n[0] += 1
            return esc if (n[0] + k) % 2 else m.group(0)
        text = re.sub(r'(?<![\w$\\.])%s(?![\w$\\])' % re.escape(name), sub, text)
    return text


class Hooks(object):
    def __init__(self, ctx):
        self.ctx = ctx
        self.longest = 0

    def install(self):
        import calmjs.parse.handlers.obfuscation as ob
        ctx = self.ctx
        me = self

        def after_next(snap, result, args, kwargs):
            ctx.hit('NameGenerator.next')
            if len(result) > me.longest:
                me.longest = len(result)

        def after_fin(snap, result, args, kwargs):
            ctx.hit('Obfuscator.finalize')

        def after_close(snap, result, args, kwargs):
            ctx.hit('Scope.close')
        self.recs = [probe.wrap(ob.NameGenerator, '__next__', after=after_next),
                     probe.wrap(ob.Obfuscator, 'finalize', after=after_fin),
                     probe.wrap(ob.Scope, 'close', after=after_close)]
        ob.NameGenerator.next = ob.NameGenerator.__next__
        return self

    def remove(self):
        for r in self.recs:
            r.remove()
        self.ctx.extra['longest_generated_name__max'] = self.longest


_warm = []


def warm_tree():
    if not _warm:
        from calmjs.parse.parsers.es5 import parse
        _warm.append(parse('function warm(p) { var q = p; return q; } var top = warm(free);'))
    return _warm[0]


def check(ctx, text, cfgs, origin, reuse=False):
    res, rerr = work.run_ref(text)
    if res is None or work.uncertain(res, rerr) or work.skip_known(ctx, text, res):
        return
    scope0 = refscope.resolve(res)
    if scope0.dynamic:
        ctx.count('out_of_scope:with_or_eval')
        return
    try:
        tree, err = work.run_impl(text)
    except Exception:
        return
    if tree is None:
        ctx.count('skipped:impl_rejects')
        return
    for cname, og, make in cfgs:
        try:
            plain = ''.join(f.text for f in make(False)(tree))
            printer = make(True)
            if reuse == 2:
                # two outputs of one printer object alive at the same time, consumed in turns (a writer that merges
                # streams does that): the renaming of either must not depend on the other
                g1, g2 = printer(tree), printer(warm_tree())
                parts, live = [], [g1, g2]
                while live:
                    for g in list(live):
                        for _ in range(7):
                            f = next(g, None)
                            if f is None:
                                live.remove(g)
                                break
                            if g is g1:
                                parts.append(f.text)
                obf = ''.join(parts)
                ctx.hit('interleaved_outputs')
            else:
                if reuse:
                    # the printer object has been used before (C14 demands it is reusable; users do reuse them)
                    for f in printer(warm_tree()):
                        pass
                    ctx.hit('reused_printer')
                obf = ''.join(f.text for f in printer(tree))
        except RecursionError:
            ctx.count('skipped:resource_limit')
            continue
        except Exception as e:
            ctx.hit('obfuscated_print')
            ctx.violation('C07:printer_raised:%s' % type(e).__name__, {'text': text, 'config': cname, 'reuse': reuse},
                          'printing with obfuscation raised %s: %s (the output has to exist and parse)\ninput: %r' % (
                              type(e).__name__, str(e)[:200], text[:300]))
            break
        ctx.hit('obfuscated_print')
        pr, perr = work.run_ref(plain)
        if pr is None:
            ctx.count('plain_output_unreadable')     # C01 / C02 report that
            continue
        orr, oerr = work.run_ref(obf)
        if orr is None:
            ctx.violation('C07:obfuscated_output_does_not_parse', {'text': text, 'config': cname, 'reuse': reuse},
                          'the obfuscated output is rejected (%s) while the un-obfuscated output of the same printer '
                          'parses\ninput: %r\nobfuscated: %r' % (oerr, text[:300], obf[:300]))
            break
        ps, os_ = refscope.resolve(pr), refscope.resolve(orr)
        v, renamed = judge(pr, ps, orr, os_, og)
        if v:
            # mechanism attribution: is the renaming correct under the known deviation "the name of a
            # function expression belongs to the scope around it"?  (the verdict stays the standard one)
            for dname, kw in (('function_expression_name_in_enclosing_scope', {'fexpr_name_in_enclosing_scope': True}),
                              ('var_redeclaring_catch_parameter', {'catch_var_stays': True}),
                              ('function_expression_name_and_catch_var',
                               {'fexpr_name_in_enclosing_scope': True, 'catch_var_stays': True})):
                v2, _ = judge(pr, refscope.resolve(pr, **kw), orr, refscope.resolve(orr, **kw), og)
                if v2 is None:
                    v = ('C07:deviation:' + dname, v[1] + ' [the renaming is consistent under the known deviation %s]' % dname)
                    break
        ctx.hit('occurrences_checked', len(ps.occ))
        ctx.count('scope_depth_max_%d' % min(ps.max_depth, 9))
        ctx.count('catch_scopes', ps.n_catch)
        ctx.count('named_function_expressions', ps.n_named_fexpr)
        ctx.case((text, cname), renamed >= 1,
                 sample={'origin': origin, 'config': cname, 'plain': plain[:140], 'obfuscated': obf[:140]}
                 if (renamed and ctx.rng.random() < 0.002) else None)
        if v:
            ctx.violation(v[0], {'text': text, 'config': cname, 'reuse': reuse},
                          '%s\nconfiguration %s\ninput: %r\nplain:      %r\nobfuscated: %r' % (
                              v[1], cname, text[:400], plain[:400], obf[:400]))
            break


def run(ctx):
    hooks = Hooks(ctx).install()
    rng = ctx.rng
    try:
        cfgs = configs()
        n = ctx.per_shard(220, 5000)
        for i in range(n):
            text = scope_program(rng, big=(rng.choice([60, 300, 800, 3000]) if i % 97 == 5 else 0))
            if i % 5 == 3:
                text = escape_some(text, rng)
                ctx.hit('escaped_spelling')
            sel = cfgs if (ctx.tier == 'thorough' or i % 6 == 0) else [cfgs[i % len(cfgs)], cfgs[(i * 5 + 3) % len(cfgs)]]
            check(ctx, text, sel, 'scope_shape', reuse=(0, 1, 2, 1)[i & 3])
            if not (i & 0xf) and ctx.time_left() < ctx.budget_s * 0.3:
                break

        def opts_fn(i, r):
            return jsgen.Opts(clean=True, allow_with=False)
        progs = work.Programs(ctx, ctx.per_shard(120, 2500), opts_fn=opts_fn, layouts=('space', 'lines'))
        for i, (text, meta) in enumerate(progs):
            check(ctx, text, [cfgs[i % len(cfgs)], cfgs[(i + 7) % len(cfgs)]], meta['origin'], reuse=(0, 1, 2, 1)[i & 3])
            if ctx.out_of_time():
                break
        progs.report()
    finally:
        hooks.remove()


def replay(ctx, witness):
    hooks = Hooks(ctx).install()
    try:
        cfgs = [c for c in configs() if c[0] == witness.get('config')] or configs()
        check(ctx, witness['text'], cfgs, 'replay', reuse=int(witness.get('reuse') or 0))
    finally:
        hooks.remove()


def canary(ctx, spec):
    sub = type(ctx)(ctx.prop, ctx.tier, ctx.seed, 0, 1, 30)
    sub._suppressed = set()
    cfgs = [c for c in configs() if c[0] == spec.get('config')] or configs()[:1]
    check(sub, spec['text'], cfgs, 'canary')
    return next(iter(sub.viol_count), None)

"""
C06 - the token stream is a faithful, gap-free, correctly located segmentation.

Offline conservation-and-location checker over the recorded token list of
``Lexer(yield_comments=True)``: tokens + skipped layout = input, with an
independent punctuator table, reserved-word set, white-space set and line
table.  No model of *classification* of '/' is involved (that is C05).
"""

import itertools
import unicodedata

from vk.boot import HarnessBroken
from vk import work
from vk.gen import jsgen
from vk.ref import refjs

LEVEL = 'exploration'
RULE = ('inputs: lexical soups (random sequences of identifiers incl. curated non-ASCII ones, every numeric / '
        'string / regex spelling of the pools, all punctuators, keywords, single- and multi-line comments, string '
        'continuations with each terminator) joined by random ES5 white space and every line-terminator kind '
        '(incl. CR directly followed by LF across token boundaries), plus generated programs and the corpus; every text '
        'also through one of Lexer() / Lexer(with_comments=True) / token() calls (same audit, same non-comment tokens); '
        'plus every ordered triple of punctuators written without separation and 21 pieces of foreign syntax (hashbang line, HTML comment '
        'delimiters, decorators, template quotes ...) at the start of the text, of a later line and inside a line x 6 line ends; every token '
        'is also re-read by the reference scanner at its offset (same class, same extent); '
        'a case = one text that lexes without error; non-trivial = at least 3 tokens and at least one line '
        'terminator or multi-character punctuator.')
ASSUMPTIONS = ['ES5 white space = TAB VT FF SP NBSP BOM + Unicode Zs; line terminators = LF CR LS PS (CRLF one); '
               'punctuator list of ECMA-262 7.7; synthetic AUTOSEMI tokens are exempt from the substring clause']
BUDGET_S = {'quick': 60, 'thorough': 600}
REQUIRED_HITS = ['tokens_checked', 'line_terminator_crossed', 'multi_line_token', 'mode:comments_skipped', 'mode:comments_attached',
                 'mode:token_calls', 'punctuator_triple', 'foreign_syntax']
FLOOR = {'quick': 3000, 'thorough': 40000}

PUNCTUATORS = '''{ } ( ) [ ] . ; , < > <= >= == != === !== + - * % ++ -- << >> >>> & | ^ ! ~ && || ? : = += -= *=
%= <<= >>= >>>= &= |= ^= / /='''.split()
_MAXP = max(len(p) for p in PUNCTUATORS)
RESERVED = set('''break do instanceof typeof case else new var catch finally return void continue for switch while
debugger function this with default if throw delete in try class enum extends super const export import null
true false'''.split())
LITERAL_TYPES = {'NUMBER', 'STRING', 'REGEX', 'ID', 'LINE_COMMENT', 'BLOCK_COMMENT', 'GETPROP', 'SETPROP'}
LT = '\n\r\u2028\u2029'


def is_layout(c):
    return c in LT or c in '\t\x0b\x0c \xa0\ufeff' or unicodedata.category(c) == 'Zs'


def only_layout(gap):
    """white space, line terminators and comments only (the statement allows
    comments between tokens even when comment tokens are being yielded)"""
    if not gap:
        return True
    try:
        p, _, _ = refjs.Scanner(gap).skip(0)
    except refjs.RefSyntaxError:
        return False
    return p == len(gap)


def longest_punct(text, pos):
    for L in range(_MAXP, 0, -1):
        if text[pos:pos + L] in PUNCTUATORS:
            return text[pos:pos + L]
    return None


_KIND = {'NUMBER': 'num', 'STRING': 'str', 'REGEX': 'regex', 'ID': 'name', 'GETPROP': 'name', 'SETPROP': 'name'}


def token_class(text, typ, val, pos, keyword_types):
    """None, or what is wrong: the token is not what the reference scanner reads at that offset (kind and extent).
    Where the reference scanner itself gives up (malformed literal, Annex B spelling) there is no verdict."""
    sc = refjs.Scanner(text)
    try:
        if typ in ('LINE_COMMENT', 'BLOCK_COMMENT'):
            _, _, comments = sc.skip(pos)
            c = comments[0] if comments else None
            if c is None or c.start != pos or c.end != pos + len(val) or c.kind != ('line' if typ == 'LINE_COMMENT' else 'block'):
                return '%s token %r at %d: the text there is %s' % (
                    typ, val[:40], pos, 'no comment' if c is None or c.start != pos else 'the %s comment %r' % (c.kind, c.text[:40]))
            return None
        kind = _KIND.get(typ, 'name' if typ in keyword_types else 'punct')
        t = sc.scan(pos, regex=(kind == 'regex'))
    except refjs.RefSyntaxError:
        return None
    if t is None or t.start != pos:
        return '%s token %r at %d: no token starts there' % (typ, val[:40], pos)
    if t.kind != kind or t.end != pos + len(val):
        if t.flags:
            return None
        return '%s token %r at %d: the text there is the %s token %r' % (typ, val[:40], pos, t.kind, text[t.start:t.end][:40])
    return None


def audit(text, toks, keyword_types, prefix=False):
    """
    toks: list of (type, value, lexpos, lineno, colno).  Returns a list of
    (mechanism, detail); the oracle proper.
    """
    out = []
    table = refjs.LineTable(text)
    prev_end = 0
    for typ, val, pos, line, col in toks:
        if typ == 'AUTOSEMI':
            if pos < prev_end:
                out.append(('C06:order', 'synthetic semicolon at %d before end %d of previous token' % (pos, prev_end)))
            continue
        if pos < prev_end:
            out.append(('C06:overlap_or_order', '%s %r at %d starts before the previous token ended (%d)' % (
                typ, val, pos, prev_end)))
        if text[pos:pos + len(val)] != val:
            out.append(('C06:not_a_substring', '%s token value %r is not the input text at offset %d (%r)' % (
                typ, val, pos, text[pos:pos + len(val)])))
        gap = text[prev_end:pos]
        if not only_layout(gap):
            out.append(('C06:gap_not_layout', 'skipped text %r before %s %r is not only white space, line '
                        'terminators and comments' % (gap, typ, val)))
        if typ not in LITERAL_TYPES and typ not in keyword_types:
            lp = longest_punct(text, pos)
            if lp != val:
                out.append(('C06:punctuator_not_longest', '%s %r at %d, longest punctuator there is %r' % (
                    typ, val, pos, lp)))
        if typ in keyword_types and val not in RESERVED:
            out.append(('C06:keyword_type_on_non_keyword', '%s for %r' % (typ, val)))
        if typ in keyword_types and typ.lower() != val:
            out.append(('C06:keyword_type_mismatch', '%s for %r' % (typ, val)))
        # the class of the token is the class the reference scanner finds for the text at that place, with the
        # same extent: a comment token is a comment of 7.4, a string a string literal, and so on
        cls = token_class(text, typ, val, pos, keyword_types)
        if cls:
            out.append(('C06:token_class', cls))
        eline, ecol = table.linecol(pos)
        if (line, col) != (eline, ecol):
            out.append(('C06:line_column', '%s %r at offset %d reported at %s:%s, counting line terminators '
                        'gives %s:%s' % (typ, val[:20], pos, line, col, eline, ecol)))
        prev_end = pos + len(val)
    tail = text[prev_end:]
    if not prefix and not only_layout(tail):
        out.append(('C06:tail_not_layout', 'text after the last token %r is not only layout and comments' % tail[:40]))
    return out


def selfcheck(ctx):
    kw = {'VAR', 'IF'}
    text = 'var a\n  >>= b'
    good = [('VAR', 'var', 0, 1, 1), ('ID', 'a', 4, 1, 5), ('RSHIFTEQUAL', '>>=', 8, 2, 3), ('ID', 'b', 12, 2, 7)]
    planted = [
        audit(text, [good[0], good[1], ('RSHIFT', '>>', 8, 2, 3), ('EQ', '=', 10, 2, 5), good[3]], kw),
        audit(text, [good[0], ('ID', 'a', 4, 1, 5), ('RSHIFTEQUAL', '>>=', 8, 1, 9), good[3]], kw),
        audit(text, [good[0], good[2], good[3]], kw),              # 'a' lost in a gap
        audit(text, [('IF', 'var', 0, 1, 1)] + good[1:], kw),       # wrong keyword type
        audit(text, [good[0], ('ID', 'x', 4, 1, 5)] + good[2:], kw),
        audit(text, good[:3], kw),                                  # tail dropped
        audit('a <!--b', [('ID', 'a', 0, 1, 1), ('LINE_COMMENT', '<!--b', 2, 1, 3)], kw),   # a comment token that is none
        audit('a "b" c', [('ID', 'a', 0, 1, 1), ('STRING', '"b" c', 2, 1, 3)], kw),         # a string token running on
    ]
    if not all(planted) or audit(text, good, kw):
        raise HarnessBroken('C06 checker failed on planted observations: %r / %r' % (planted, audit(text, good, kw)))
    return len(planted) + 1


SOUP_PUNCT = PUNCTUATORS
SOUP_WS = [' ', ' ', ' ', '  ', '\t', '\x0b', '\x0c', '\xa0', '\ufeff', '\u2003', '\u1680', '\u3000', '\u202f']
SOUP_LT = ['\n', '\r', '\r\n', '\u2028', '\u2029', '\n\n', '\r\r\n', '\n\r']
SOUP_COMMENTS = ['/* c */', '/**/', '/* a\n b */', '/* a\r\n b\r c */', '/* x y z */', '// line',
                 '//', '/* * / ** */', '/*\n*/',
                 # bodies that begin or end with the characters of the delimiters
                 '/*/ a */', '/*/*/', '/***/', '/*//*/', '/** /* */', '/*/\n/*/', '///', '// */', '//* x', '/*\\*/']


# characters no token can start with and that are not white space: the lexer has to stop at them
SOUP_ILLEGAL = ['#', '@', '`', '\\', '\u200b', '\x00', '\x7f', '\x85']


def soup(rng):
    n = rng.randint(3, 25)
    parts = []
    for i in range(n):
        k = rng.random()
        if k < 0.02:
            # a reserved word spelled with a unicode escape is not that keyword's token
            w = rng.choice(sorted(RESERVED))
            j = rng.randrange(len(w))
            tok = w[:j] + '\\u%04x' % ord(w[j]) + w[j + 1:]
        elif k < 0.22:
            tok = rng.choice(jsgen.IDENT_POOL + jsgen.UNICODE_IDENTS)
        elif k < 0.32:
            tok = rng.choice(sorted(RESERVED))
        elif k < 0.42:
            tok = rng.choice(jsgen.NUMBERS)
        elif k < 0.52:
            tok = rng.choice(jsgen.STRINGS + jsgen.STRINGS_CONT)
        elif k < 0.56:
            tok = rng.choice(jsgen.REGEXES)
        elif k < 0.64:
            tok = rng.choice(SOUP_COMMENTS)
        elif k < 0.655:
            tok = rng.choice(SOUP_ILLEGAL)
        else:
            tok = rng.choice(SOUP_PUNCT)
        parts.append(tok)
        # separator
        s = rng.random()
        if tok.startswith('//'):
            sep = rng.choice(SOUP_LT)
        elif s < 0.5:
            sep = rng.choice(SOUP_WS)
        elif s < 0.8:
            sep = rng.choice(SOUP_LT) + (rng.choice(SOUP_WS) if rng.random() < 0.4 else '')
        elif s < 0.9:
            sep = ''
        else:
            sep = rng.choice(SOUP_WS) + rng.choice(SOUP_LT) + rng.choice(SOUP_WS)
        parts.append(sep)
    return ''.join(parts)


MODES = {'comments_skipped': {}, 'comments_attached': {'with_comments': True}, 'token_calls': {'yield_comments': True}}


def lex_all(text, mode=None):
    from calmjs.parse.lexers.es5 import Lexer
    lx = Lexer(**MODES[mode]) if mode else Lexer(yield_comments=True)
    lx.input(text)
    from calmjs.parse.exceptions import ECMASyntaxError
    out = []
    try:
        if mode == 'token_calls':
            # the other way of reading a lexer: token() until it returns None
            while True:
                t = lx.token()
                if t is None:
                    break
                out.append((t.type, t.value, t.lexpos, t.lineno, getattr(t, 'colno', None)))
                if len(out) > 20000:
                    break
        for t in (lx if mode != 'token_calls' else ()):
            out.append((t.type, t.value, t.lexpos, t.lineno, getattr(t, 'colno', None)))
            if len(out) > 20000:
                break
    except ECMASyntaxError as e:
        # the tokens handed out before the lexer gave up are still a segmentation of a prefix
        e.tokens_before = out
        e.keyword_types = set(Lexer.keywords)
        raise
    return out, set(Lexer.keywords)


def check(ctx, text, origin, mode=None):
    from calmjs.parse.exceptions import ECMASyntaxError
    try:
        toks, kw = lex_all(text)
    except ECMASyntaxError as e:
        ctx.count(origin + ':lexer_raises')
        ctx.case(text, False)
        toks = getattr(e, 'tokens_before', None)
        if toks and not work.skip_known(ctx, text, None):
            ctx.hit('tokens_checked', len(toks))
            seen = set()
            for mech, detail in audit(text, toks, e.keyword_types, prefix=True):
                if mech not in seen:
                    seen.add(mech)
                    ctx.violation(mech, {'text': text}, '%s (tokens before the lexer raised %s)\ninput: %r' % (
                        detail, e, text[:300]))
        return
    if work.skip_known(ctx, text, None):
        ctx.case(text, False)
        return
    ctx.hit('tokens_checked', len(toks))
    has_lt = any(c in text for c in LT)
    multi = any(len(v) > 1 and t not in LITERAL_TYPES and t not in kw for t, v, p, l, c in toks)
    for t, v, p, l, c in toks:
        ctx.count('type:' + ('keyword' if t in kw else t if t in LITERAL_TYPES or t == 'AUTOSEMI' else 'punctuator'))
        if any(ch in v for ch in LT):
            ctx.hit('multi_line_token')
    if has_lt:
        ctx.hit('line_terminator_crossed')
    nontrivial = len(toks) >= 3 and (has_lt or multi)
    ctx.case(text, nontrivial, sample={'origin': origin, 'text': text[:120],
                                       'tokens': [[t, v[:12], p, l, c] for t, v, p, l, c in toks[:8]]}
             if (nontrivial and ctx.rng.random() < 0.002) else None)
    seen = set()
    for mech, detail in audit(text, toks, kw):
        if mech in seen:
            continue
        seen.add(mech)
        ctx.violation(mech, {'text': text}, '%s\ninput: %r' % (detail, text[:300]))
    if seen:
        return
    # "the tokens produced for any text": also those of a lexer that skips comments (the parser's), of one that
    # attaches them to the next token (the comment-capturing parser's), and of token() calls; one of the three
    # per case.  The same audit applies (comments are then part of the gaps), and the non-comment tokens are
    # those of the run above
    mode = sorted(MODES)[len(text) % 3] if mode is None else mode
    try:
        toks2, _ = lex_all(text, mode)
    except ECMASyntaxError as e:
        ctx.violation('C06:mode_dependent_rejection', {'text': text, 'mode': mode},
                      'Lexer(yield_comments=True) lexes the text, mode %s raises %s\ninput: %r' % (mode, e, text[:300]))
        return
    ctx.hit('mode:' + mode)
    for mech, detail in audit(text, toks2, kw):
        if mech not in seen:
            seen.add(mech)
            ctx.violation(mech + ':' + mode, {'text': text, 'mode': mode}, '%s (lexer mode %s)\ninput: %r' % (
                detail, mode, text[:300]))
    strip = (lambda ts: [t for t in ts if t[0] not in ('LINE_COMMENT', 'BLOCK_COMMENT')]) if mode != 'token_calls' \
        else (lambda ts: ts)
    if not seen and strip(toks) != strip(toks2):
        a, b = strip(toks), strip(toks2)
        k = next((i for i, (x, y) in enumerate(zip(a, b)) if x != y), min(len(a), len(b)))
        ctx.violation('C06:tokens_depend_on_mode:' + mode, {'text': text, 'mode': mode},
                      'token %d is %r with yield_comments, %r in mode %s\ninput: %r' % (
                          k, a[k] if k < len(a) else None, b[k] if k < len(b) else None, mode, text[:300]))


FOREIGN = ['#!/usr/bin/env node', '#!', '#', '<!--', '<!-- x', '-->', '--> y', '@decorator', '`tpl`', '#private', '\\', '#! x',
           '<?php', '%>', '/*@cc_on', '//@ sourceURL=x', '\ufeff#!/bin/sh', '\x00', '"use strict"', '\u200b', '#!\\']


def systematic(ctx):
    """(a) every ordered triple of punctuators written without anything in between (longest match decides, and nothing
    but the comment openers // and /* turns punctuators into something else); (b) syntax of other languages and tools that a
    lenient lexer might skip - a hashbang line, HTML comment delimiters, decorators, template quotes - at the start of the
    text, at the start of a later line and in the middle of a line, each with each kind of line end after it"""
    P = sorted(PUNCTUATORS)
    idx = 0
    for tr in itertools.product(P, repeat=3):
        idx += 1
        if idx % ctx.nshards != ctx.shard:
            continue
        check(ctx, 'a' + ''.join(tr) + ' b', 'punctuator_triple')
        ctx.hit('punctuator_triple')
    for f in FOREIGN:
        for lt in ['\n', '\r', '\r\n', '\u2028', '\u2029', '']:
            for shape in ('%s%sx = 1%sy = 2', 'a = 1%s%s%sb = 2%s c', 'a = 1 %s b%sc = 3', ' %s%s\tz', 'x = a%sb%s', 'f(%s)%sg()'):
                idx += 1
                if idx % ctx.nshards != ctx.shard:
                    continue
                text = shape.replace('%s%s%s', lt + f + lt, 1) if shape.count('%s') == 4 else shape
                text = text.replace('%s', f, 1).replace('%s', lt)
                check(ctx, text, 'foreign_syntax')
                ctx.hit('foreign_syntax')


def run(ctx):
    rng = ctx.rng
    systematic(ctx)
    n = ctx.per_shard(2500, 60000)
    for i in range(n):
        check(ctx, soup(rng), 'soup')
        if not (i & 0xff) and ctx.out_of_time():
            break

    def opts_fn(i, r):
        return jsgen.Opts(clean=False, unicode_idents=True, string_continuations=True)
    progs = work.Programs(ctx, ctx.per_shard(250, 5000), opts_fn=opts_fn, valid_only=False)
    for text, meta in progs:
        check(ctx, text, meta['origin'])
        if meta['toks'] and meta['layout'] == 'space':
            for lt in jsgen.LINE_TERMINATORS:
                check(ctx, jsgen.render(meta['toks'], 'lines', rng, lt=lt), 'generated_lines')
    progs.report()


def replay(ctx, witness):
    check(ctx, witness['text'], 'replay', mode=witness.get('mode'))


def canary(ctx, spec):
    from calmjs.parse.exceptions import ECMASyntaxError
    try:
        toks, kw = lex_all(spec['text'])
    except ECMASyntaxError:
        return None
    a = audit(spec['text'], toks, kw)
    return a[0][0] if a else None

"""
C18 - stream read/write helpers: same output, valid map link, no leaked streams.

Stream doubles record every open/read/write/writelines/close with a global
sequence number and can raise ``FaultInjected`` at the k-th call; factories
record each product.  Per arrangement one fault-free run enumerates the fault
points (factory calls, the read, the parse, every fragment pulled from the
unparser, every write / writelines on each stream, the JSON serialisation),
then one run per fault point.  An offline checker over the event log decides
exactly-once closure and propagation; the fault-free run is checked against the
printer's own text and an independently computed map / URL.
"""

import base64
import itertools
import json
import os

from vk.boot import HarnessBroken
from vk import smmon
from vk.ref import refsm, refvlq

LEVEL = 'fault_enumeration'
RULE = ('arrangements: {output: factory | open stream} x {map: none | separate factory | separate open stream | same '
        'stream (inline)} x {names: absolute | relative | missing} x {nodes: single | list | generator | several '
        'sources} x {pretty, minify+obfuscate} x {source_mapping_url default | None | explicit} over small corpus '
        'programs, nodes also given as a lazy iterable (its steps are fault points) and as an empty list (a usage error: what was opened must still be closed), output streams that declare an encoding (utf-8, latin-1, ascii, shift_jis, utf-16) with the inline map decoded in the charset it announces; read(): {factory | open stream} x {valid | syntax error | read fault}. For every arrangement every '
        'fault point of the fault-free run is enumerated and injected twice, once as an Exception subclass and once as a failure that is not an Exception (as KeyboardInterrupt / SystemExit are). A case = (arrangement, fault point or '
        '"none"); every case is non-trivial; distinct by that pair.')
ASSUMPTIONS = ['behaviour when close() itself raises, and non-string stream names, are not demanded',
               'the inline data URL is accepted in the form the helper writes it (parameters in any order) as long as '
               'its base64 payload decodes to the map']
BUDGET_S = {'quick': 90, 'thorough': 600}
REQUIRED_HITS = ['io.write', 'io.read', 'fault_injected', 'close_checked', 'sourcemap.write', 'map_compared', 'self_returning_factory']
FLOOR = {'quick': 300, 'thorough': 3000}

PROGRAMS = ['var a = 1;', 'function f(x) { return x + 1; }\nf(2);', 'if (a) { b(); } else c = [1, , 2];',
            'var o = {k: "v", get g() { return 1; }};', 'for (var i = 0; i < 3; i++) s += i;\n// done\n',
            # names outside ASCII (they reach the map's "names" when the printer renames them) and bytes that
            # make every base64 digit occur in an inline map
            'function \u5909\u6570(a\u306f\u3044, a\xff, \u51fa\u529b) { return a\u306f\u3044 + a\xff + \u51fa\u529b + "?>~\xff\xfe"; }',
            'var gr\xf6\xdfe = function (\u00ffy, z\u00ff\u00ff) { return \u00ffy > z\u00ff\u00ff ? "~~~" : "???"; };']


class FaultInjected(Exception):
    pass


class AbortInjected(BaseException):
    """a failure that is not an Exception (what KeyboardInterrupt, SystemExit, GeneratorExit are)"""


class Log(object):
    def __init__(self):
        self.events = []
        self.fault = None       # (stream label, method, k)
        self.counts = {}
        self.injected = None

    def event(self, label, method, detail=None):
        key = (label, method)
        self.counts[key] = self.counts.get(key, 0) + 1
        self.events.append((len(self.events), label, method, detail))
        if self.fault is not None and self.fault[0] == label and self.fault[1] == method \
                and self.counts[key] == self.fault[2]:
            cls = AbortInjected if (len(self.fault) > 3 and self.fault[3] == 'abort') else FaultInjected
            self.injected = cls('%s.%s #%d' % (label, method, self.fault[2]))
            raise self.injected


class Stream(object):
    def __init__(self, log, label, name=NotImplemented, text='', made_by_factory=False, encoding=None):
        self.log = log
        self.label = label
        if name is not NotImplemented:
            self.name = name
        if encoding:
            self.encoding = encoding
        self.text = text
        self.out = []
        self.closed = 0
        self.made_by_factory = made_by_factory

    def read(self):
        self.log.event(self.label, 'read')
        return self.text

    def write(self, s):
        self.log.event(self.label, 'write', s)
        self.out.append(s)
        return len(s)

    def writelines(self, lines):
        lines = list(lines)
        self.log.event(self.label, 'writelines', lines)
        self.out.extend(lines)

    def close(self):
        self.closed += 1
        self.log.events.append((len(self.log.events), self.label, 'close', None))

    def getvalue(self):
        return ''.join(self.out)


class Factory(object):
    def __init__(self, log, label, **kw):
        self.log, self.label, self.kw = log, label, kw
        self.products = []

    def __call__(self):
        self.log.event(self.label, 'open')
        s = Stream(self.log, self.label, made_by_factory=True, **self.kw)
        self.products.append(s)
        return s


class SelfFactory(Stream):
    """a factory whose product is itself: a file object that opens lazily when called (a re-openable handle).  The
    helper obtained it by calling the factory it was given, so it closes it, once"""

    def __init__(self, log, label, **kw):
        Stream.__init__(self, log, label, made_by_factory=True, **kw)
        self.opened = 0

    def __call__(self):
        self.log.event(self.label, 'open')
        self.opened += 1
        return self


def expected_paths(out_name, map_name, sources):
    """independent computation of file / sources / URL (os.path only)"""
    def rel(base, target):
        if os.path.isabs(base) and os.path.isabs(target):
            return '/'.join(os.path.relpath(os.path.normpath(target), os.path.dirname(os.path.normpath(base))).split(os.sep))
        return '/'.join(target.split(os.sep))
    return rel(map_name, out_name), [rel(map_name, s) for s in sources], rel(out_name, map_name)


def audit_closure(log, streams, injected, raised):
    """offline checker over the event log: closure and propagation"""
    out = []
    for s in streams:
        if isinstance(s, SelfFactory) and not s.opened:
            # the helper never (successfully) called it: it has obtained nothing, so there is nothing for it to close
            if s.closed:
                out.append(('C18:passed_in_stream_closed', 'callable %s that was never called was closed' % s.label))
        elif s.made_by_factory:
            if s.closed != 1:
                out.append(('C18:factory_stream_closed_%s_times' % ('zero' if s.closed == 0 else 'several'),
                            'stream %s made by a factory was closed %d times' % (s.label, s.closed)))
        elif s.closed:
            out.append(('C18:passed_in_stream_closed', 'stream %s passed in open was closed' % s.label))
    if injected is not None and raised is not injected:
        out.append(('C18:fault_not_propagated', 'injected %r, the helper %s' % (
            injected, 'returned normally' if raised is None else 'raised %r' % (raised,))))
    if injected is None and raised is not None:
        out.append(('C18:unexpected_exception', 'fault-free run raised %r' % (raised,)))
    return out


def selfcheck(ctx):
    log = Log()
    a = Stream(log, 'a', made_by_factory=True)
    b = Stream(log, 'b')
    inj = FaultInjected('x')
    a.close()
    good = audit_closure(log, [a, b], inj, inj)
    a.close()
    b.close()
    bad = audit_closure(log, [a, b], inj, None)
    c = Stream(log, 'c', made_by_factory=True)
    bad2 = audit_closure(log, [c], None, None)
    if good or len(bad) < 3 or not bad2:
        raise HarnessBroken('C18 closure checker failed on planted observations %r %r %r' % (good, bad, bad2))
    f, srcs, url = expected_paths('/a/b/out.js', '/a/maps/out.js.map', ['/a/src/x.js', 'rel.js'])
    assert (f, srcs, url) == ('../b/out.js', ['../src/x.js', 'rel.js'], '../maps/out.js.map'), (f, srcs, url)
    return 6


def make_nodes(kind, names, log=None):
    from calmjs.parse.parsers.es5 import parse
    if kind == 'empty':
        return [], []
    trees = []
    for i, (text, name) in enumerate(names):
        t = parse(text)
        if name is not None:
            t.sourcepath = name
        trees.append(t)
    if kind == 'single':
        return trees[0], trees[:1]
    if kind == 'list':
        return list(trees), trees
    if kind == 'generator':
        # a lazy iterable whose steps are fault points (a file that cannot be read, in the README's idiom
        # io.write(printer, (io.read(parse, f) for f in files), ...))
        def lazy():
            for t in trees:
                if log is not None:
                    log.event('nodes', 'next')
                yield t
        return lazy(), trees
    return trees, trees


def printer_of(pname):
    from calmjs.parse.unparsers.es5 import pretty_printer, minify_printer
    # ('pretty!raw': the same printer, the helper called with sourcemap_normalize_mappings=False)
    pname = pname.partition('!')[0]
    return pretty_printer('  ') if pname == 'pretty' else minify_printer(obfuscate=True, drop_semi=True)


class PoisonedPrinter(object):
    """an unparser that raises FaultInjected when the k-th fragment is pulled"""

    def __init__(self, inner, log):
        self.inner, self.log = inner, log

    def __call__(self, node):
        for frag in self.inner(node):
            self.log.event('unparser', 'fragment')
            yield frag


def run_write(ctx, arr, fault=None):
    """one execution of io.write under an arrangement; returns observations"""
    import calmjs.parse.io as cio
    import calmjs.parse.sourcemap as sm
    log = Log()
    log.fault = fault
    out_kind, map_kind, name_kind, node_kind, pname, url_kind, normalize_paths, texts = arr
    base = {'absolute': '/work/build/', 'relative': 'build/', 'missing': None, 'absolute_prefix_siblings': '/work/dist/',
            'absolute_prefix_siblings_reversed': '/work/dist-min/'}.get(name_kind, 'x/')
    out_name = (base + 'out.js') if base is not None else NotImplemented
    map_name = ((base[:-6] if name_kind == 'absolute' else '') + 'maps/out.js.map') if base is not None else NotImplemented
    if name_kind == 'absolute':
        map_name = '/work/maps/out.js.map'
    # sibling directories of which one name is a string prefix of the other
    if name_kind == 'absolute_prefix_siblings':
        map_name = '/work/dist.maps/out.js.map'
    if name_kind == 'absolute_prefix_siblings_reversed':
        map_name = '/work/dist/out.js.map'
    # further layouts: (output, map, source template)
    more = {'absolute_backslash': ('/work/build/app\\v1.min.js', '/work/build/app\\v1.min.js.map', '/work/src/m\\f%d.js'),
            'relative_backslash': ('build\\out.js', 'build\\out.js.map', 'src\\f%d.js'),
            'absolute_map_deeper': ('/work/dist/bundle.js', '/work/dist/maps/v1/bundle.js.map', '/work/lib/f%d.js'),
            'absolute_map_shallower': ('/work/dist/js/bundle.js', '/work/bundle.js.map', '/work/dist/js/src/f%d.js'),
            'absolute_odd_characters': ('/work/my build/out (1).js', '/work/my build/maps #1/out (1).js.map',
                                        '/work/s%%r c/\u30bd\u30fc\u30b9 f%d.js')}
    if name_kind in more:
        out_name, map_name = more[name_kind][:2]
    src_names = []
    for i, t in enumerate(texts):
        if name_kind in more:
            src_names.append((t, more[name_kind][2] % i))
        elif name_kind == 'absolute':
            src_names.append((t, '/work/src/f%d.js' % i))
        elif name_kind.startswith('absolute_prefix'):
            src_names.append((t, '/work/dist-src/f%d.js' % i if i % 2 else '/work/dis/f%d.js' % i))
        elif name_kind == 'relative':
            src_names.append((t, 'src/f%d.js' % i))
        else:
            src_names.append((t, None))
    nodes, trees = make_nodes(node_kind, src_names, log)
    streams = []
    kw_out = {} if out_name is NotImplemented else {'name': out_name}
    kw_map = {} if map_name is NotImplemented else {'name': map_name}
    # 'factory+latin-1': the output stream declares an encoding (what a file opened in text mode does)
    out_kind, _, out_encoding = out_kind.partition('+')
    if out_encoding:
        kw_out['encoding'] = out_encoding
    if out_kind == 'factory':
        out_arg = Factory(log, 'out', **kw_out)
    elif out_kind == 'selffactory':
        out_arg = SelfFactory(log, 'out', **kw_out)
        streams.append(out_arg)
    else:
        out_arg = Stream(log, 'out', **kw_out)
        streams.append(out_arg)
    if map_kind == 'none':
        map_arg = None
    elif map_kind == 'same':
        map_arg = out_arg
    elif map_kind == 'factory':
        map_arg = Factory(log, 'map', **kw_map)
    elif map_kind == 'selffactory':
        map_arg = SelfFactory(log, 'map', **kw_map)
        streams.append(map_arg)
    else:
        map_arg = Stream(log, 'map', **kw_map)
        streams.append(map_arg)
    kwargs = {'sourcemap_normalize_paths': normalize_paths}
    if pname.endswith('!raw'):
        kwargs['sourcemap_normalize_mappings'] = False
    if url_kind == 'none':
        kwargs['source_mapping_url'] = None
    elif url_kind == 'explicit':
        kwargs['source_mapping_url'] = 'https://example.org/out.js.map'
    printer = PoisonedPrinter(printer_of(pname), log)
    # JSON serialisation as a fault point
    real_json = sm.json

    class JsonProxy(object):
        def dumps(self, *a, **k):
            log.event('json', 'dumps')
            return real_json.dumps(*a, **k)

        def __getattr__(self, n):
            return getattr(real_json, n)
    sm.json = JsonProxy()
    raised = None
    try:
        cio.write(printer, nodes, out_arg, map_arg, **kwargs)
    except (FaultInjected, AbortInjected) as e:
        raised = e
    except Exception as e:
        raised = e
    finally:
        sm.json = real_json
    ctx.hit('io.write')
    for f in (out_arg, map_arg):
        if isinstance(f, Factory):
            for prod in f.products:
                if not any(prod is x for x in streams):
                    streams.append(prod)
    obs = {'log': log, 'streams': streams, 'raised': raised, 'trees': trees, 'out_name': out_name, 'map_name': map_name,
           'src_names': src_names, 'out_arg': out_arg, 'map_arg': map_arg}
    return obs


def audit_fault_free(ctx, arr, obs):
    """same output, valid map link, same map as the lower-level API"""
    import io as pyio
    import calmjs.parse.sourcemap as sm
    out = []
    out_kind, map_kind, name_kind, node_kind, pname, url_kind, normalize_paths, texts = arr
    streams = obs['streams']
    outs = [s for s in streams if s.label == 'out']
    if len(outs) != 1:
        return [('C18:output_stream_count', '%d output streams were used' % len(outs))]
    written = outs[0].getvalue()
    # what the printer itself produces (fresh printer objects), via the lower-level API
    frags = []
    for t in obs['trees']:
        frags.extend(tuple(f) for f in printer_of(pname)(t))
    text = ''.join(f[0] for f in frags)
    sink = pyio.StringIO()
    mappings, sources, names = sm.write(iter(frags), sink, normalize=not pname.endswith('!raw'))
    ctx.hit('sourcemap.write')
    if map_kind == 'none':
        if written != text:
            out.append(('C18:output_text_differs', 'without a map stream the output must be the printer text; got %r' % written[-60:]))
        return out
    out_name = obs['out_name'] if obs['out_name'] is not NotImplemented else refsm.INVALID_SOURCE
    map_name = obs['map_name'] if obs['map_name'] is not NotImplemented else refsm.INVALID_SOURCE
    if map_kind == 'same':
        map_name = out_name
    if normalize_paths:
        efile, esources, eurl = expected_paths(out_name, map_name, sources)
    else:
        efile, esources, eurl = out_name, list(sources), map_name
    expected_map = {'version': 3, 'sources': esources, 'names': list(names), 'file': efile,
                    'mappings': ';'.join(','.join(refvlq.encode_list(seg) for seg in line) for line in mappings)}
    if not written.startswith(text):
        out.append(('C18:output_text_differs', 'the output does not start with the printer text: %r vs %r' % (
            written[:60], text[:60])))
        return out
    trailer = written[len(text):]
    if map_kind == 'same':
        prefix = '\n//# sourceMappingURL=data:application/json;'
        if not trailer.startswith(prefix) or ',' not in trailer:
            out.append(('C18:inline_url_malformed', 'trailer %r' % trailer[:80]))
            return out
        params, payload = trailer[len('\n//# sourceMappingURL=data:'):].split(',', 1)
        if 'base64' not in params.split(';'):
            out.append(('C18:inline_url_malformed', 'no base64 marker in %r' % params))
        declared = [x[len('charset='):] for x in params.split(';') if x.startswith('charset=')]
        want_charset = out_kind.partition('+')[2] or 'utf-8'
        def codec(n):
            import codecs
            try:
                return codecs.lookup(n).name
            except LookupError:
                return n
        if [codec(d) for d in declared] != [codec(want_charset)]:
            out.append(('C18:inline_url_charset', 'the data URL declares %r, the output stream is %s' % (declared, want_charset)))
        try:
            got_map = json.loads(base64.b64decode(payload.strip()).decode(declared[0] if declared else 'utf-8'))
        except Exception as e:
            out.append(('C18:inline_url_undecodable', '%s: %r' % (e, payload[:40])))
            return out
    else:
        maps = [s for s in streams if s.label == 'map']
        if len(maps) != 1:
            return [('C18:map_stream_count', '%d map streams were used' % len(maps))]
        try:
            got_map = json.loads(maps[0].getvalue())
        except Exception as e:
            return [('C18:map_not_json', '%s: %r' % (e, maps[0].getvalue()[:60]))]
        if url_kind == 'none':
            want_trailer = ''
        elif url_kind == 'explicit':
            want_trailer = '\n//# sourceMappingURL=https://example.org/out.js.map\n'
        else:
            want_trailer = '\n//# sourceMappingURL=%s\n' % eurl
        if trailer != want_trailer:
            out.append(('C18:source_mapping_url', 'trailer is %r, expected %r' % (trailer, want_trailer)))
    ctx.hit('map_compared')
    if got_map != expected_map:
        diff = [k for k in set(got_map) | set(expected_map) if got_map.get(k) != expected_map.get(k)]
        out.append(('C18:map_differs:%s' % ','.join(sorted(diff)),
                    'map written by the helper differs from sourcemap.write + encode_sourcemap in %r: %r vs %r' % (
                        diff, {k: got_map.get(k) for k in diff}, {k: expected_map.get(k) for k in diff})))
    return out


def map_encodable(arr, obs, enc):
    import io as pyio
    import calmjs.parse.sourcemap as sm
    frags = []
    for t in obs['trees']:
        frags.extend(tuple(f) for f in printer_of(arr[4])(t))
    mappings, sources, names = sm.write(iter(frags), pyio.StringIO())
    try:
        for x in list(names) + [x for x in sources if isinstance(x, str)] + \
                [x for x in (obs['out_name'], obs['map_name']) if isinstance(x, str)]:
            x.encode(enc)
    except UnicodeEncodeError:
        return False
    return True


def arr_key(arr):
    return tuple(arr[:7]) + (tuple(arr[7]),)


def report(ctx, viol, arr, fault, what):
    seen = set()
    for mech, detail in viol:
        if mech in seen:
            continue
        seen.add(mech)
        ctx.violation(mech, {'arrangement': list(arr[:7]) + [list(arr[7])], 'fault': list(fault) if fault else None,
                             'helper': what},
                      '%s\narrangement: output=%s map=%s names=%s nodes=%s printer=%s url=%s normalize_paths=%s\n'
                      'fault point: %r' % ((detail,) + tuple(arr[:7]) + (fault,)))


def explore_write(ctx, arr):
    obs = run_write(ctx, arr)
    if arr[3] == 'empty':
        # nothing to write is a usage error (TypeError by the documented behaviour); whatever was opened for it
        # has to be closed all the same
        ctx.count('empty_nodes:%s' % (type(obs['raised']).__name__ if obs['raised'] is not None else 'no_error'))
        viol = audit_closure(obs['log'], obs['streams'], None, None)
        ctx.hit('close_checked', len(obs['streams']))
        ctx.case((arr_key(arr), 'empty'), True)
        report(ctx, viol, arr, None, 'write')
        return
    raised = obs['raised']
    enc = arr[0].partition('+')[2]
    if enc and arr[1] == 'same' and isinstance(raised, UnicodeEncodeError) and not map_encodable(arr, obs, enc):
        # the map cannot be written in the charset the stream declares: refusing is the only right outcome
        # (a map with replacement characters is not the map the lower-level API yields)
        ctx.count('unencodable_inline_map_refused')
        raised = None
        viol = audit_closure(obs['log'], obs['streams'], None, None)
    else:
        viol = audit_closure(obs['log'], obs['streams'], None, raised)
        if raised is None:
            viol += audit_fault_free(ctx, arr, obs)
    ctx.hit('close_checked', len(obs['streams']))
    ctx.case((arr_key(arr), 'none'), True,
             sample={'arrangement': [str(x) for x in arr[:7]], 'fault_points': sum(obs['log'].counts.values()),
                     'events': [list(map(str, e[1:3])) for e in obs['log'].events[:12]]}
             if ctx.rng.random() < 0.02 else None)
    report(ctx, viol, arr, None, 'write')
    if viol:
        return
    # enumerate the fault points of this arrangement
    points = []
    for (label, method), n in sorted(obs['log'].counts.items()):
        for k in range(1, n + 1):
            points.append((label, method, k))
            points.append((label, method, k, 'abort'))
    ctx.count('fault_points_enumerated', len(points))
    for fp in points:
        o2 = run_write(ctx, arr, fault=fp)
        inj = o2['log'].injected
        if inj is None:
            ctx.count('fault_point_not_reached')
            continue
        ctx.hit('fault_injected')
        ctx.count('fault_site:%s.%s' % (fp[0], fp[1]))
        ctx.count('fault_class:%s' % ('BaseException' if len(fp) > 3 else 'Exception'))
        v = audit_closure(o2['log'], o2['streams'], inj, o2['raised'])
        ctx.hit('close_checked', len(o2['streams']))
        ctx.case((arr_key(arr), fp), True)
        if v:
            v = [(m + ':at_%s.%s%s' % (fp[0], fp[1], ':non_Exception_failure' if len(fp) > 3 else ''), d) for m, d in v]
        report(ctx, v, arr, fp, 'write')


def explore_read(ctx, kind, text, name):
    import calmjs.parse.io as cio
    from calmjs.parse.parsers.es5 import parse
    from calmjs.parse.exceptions import ECMASyntaxError
    for fp in (None, ('in', 'open', 1), ('in', 'read', 1), ('in', 'open', 1, 'abort'), ('in', 'read', 1, 'abort')):
        if fp and fp[1] == 'open' and kind != 'factory':
            continue
        log = Log()
        log.fault = fp
        kw = {} if name is None else {'name': name}
        if kind == 'factory':
            arg = Factory(log, 'in', text=text, **kw)
        else:
            arg = Stream(log, 'in', text=text, **kw)
        raised = None
        result = None
        try:
            result = cio.read(parse, arg)
        except (Exception, AbortInjected) as e:
            raised = e
        ctx.hit('io.read')
        streams = arg.products if kind == 'factory' else [arg]
        viol = []
        inj = log.injected
        if inj is not None:
            ctx.hit('fault_injected')
            viol += audit_closure(log, streams, inj, raised)
        else:
            try:
                parse(text)
                valid = True
                msg = None
            except ECMASyntaxError as e:
                valid = False
                msg, etype = str(e), type(e)
            viol += audit_closure(log, streams, None, None)
            if valid:
                if raised is not None:
                    viol.append(('C18:read_raised', 'read of a valid program raised %r' % (raised,)))
                elif getattr(result, 'sourcepath', None) != name:
                    viol.append(('C18:read_sourcepath', 'tree.sourcepath is %r, the stream name is %r' % (
                        getattr(result, 'sourcepath', None), name)))
            else:
                if raised is None or type(raised) is not etype:
                    viol.append(('C18:read_syntax_error_type', 'expected %s, got %r' % (etype.__name__, raised)))
                elif not (str(raised).startswith(msg + ' in ') and (name is None or repr(name) in str(raised)
                                                                      or name in str(raised))):
                    viol.append(('C18:read_syntax_error_label', 'message %r does not carry the original message '
                                 '%r followed by the stream name %r' % (str(raised), msg, name)))
        ctx.hit('close_checked', len(streams))
        ctx.case(('read', kind, text, name, fp), True)
        seen = set()
        for mech, detail in viol:
            if mech in seen:
                continue
            seen.add(mech)
            ctx.violation(mech, {'helper': 'read', 'kind': kind, 'text': text, 'name': name, 'fault': list(fp) if fp else None},
                          '%s\nread(%s stream named %r) fault point %r' % (detail, kind, name, fp))


def arrangements(ctx):
    outs = ['factory', 'open']
    maps = ['none', 'factory', 'open', 'same']
    names = ['absolute', 'relative', 'missing', 'absolute_prefix_siblings', 'absolute_prefix_siblings_reversed']
    more_names = ['absolute_backslash', 'relative_backslash', 'absolute_map_deeper', 'absolute_map_shallower',
                  'absolute_odd_characters']
    nodes = ['single', 'list', 'generator', 'several', 'empty']
    printers = ['pretty', 'minify_obfuscate']
    urls = ['default', 'none', 'explicit']
    allc = list(itertools.product(outs, maps, names, nodes, printers, urls, [True, False]))
    rng = ctx.rng
    rng_all = __import__('random').Random(ctx.seed * 7919 + 17)
    rng_all.shuffle(allc)
    if ctx.tier == 'quick':
        # a deterministic core (every names x map kind x url kind with path normalisation on, every
        # output kind x map kind x node kind) plus a seeded sample of the rest
        core = [c for c in allc if (c[6] and c[3] == 'list' and c[4] == 'pretty' and c[0] == 'factory')
                or (c[2] == 'absolute' and c[5] == 'default' and c[6] and c[4] == 'minify_obfuscate')
                or (c[3] in ('generator', 'empty') and c[2] == 'relative' and c[5] == 'default' and c[6] and c[4] == 'pretty')
                or (c[2].startswith('absolute_prefix') and c[5] == 'default' and c[6] and c[4] == 'pretty' and c[3] == 'several'
                    and c[0] == 'factory')]
        rest = [c for c in allc if c not in core]
        allc = core + rest[:24]
    for i, c in enumerate(allc):
        if i % ctx.nshards != ctx.shard:
            continue
        n = 1 if c[3] == 'single' else (3 if c[3] == 'several' else 2)
        texts = [PROGRAMS[(i + j) % len(PROGRAMS)] for j in range(n)]
        yield c + (tuple(texts),)
    # every program once through the inline map (same stream for text and map) and once through a separate one,
    # with the renaming printer: what reaches "names" and the base64 payload depends on the program
    k = 0
    for prog in PROGRAMS:
        for mk in ('same', 'factory'):
            for names_kind in ('absolute', 'missing'):
                k += 1
                if k % ctx.nshards == ctx.shard:
                    yield ('factory', mk, names_kind, 'single', 'minify_obfuscate', 'default', True, (prog,))
    # programs whose printed form is empty (no token at all): still a program, written like any other
    for prog in ('', '/* nothing but a comment */', ' \n\n'):
        for mk in ('none', 'factory', 'same'):
            for pn in ('minify_obfuscate', 'pretty'):
                for nk_nodes in ('single', 'list'):
                    k += 1
                    if k % ctx.nshards == ctx.shard:
                        yield ('factory', mk, 'relative', nk_nodes, pn, 'default', True,
                               (prog,) if nk_nodes == 'single' else (prog, prog))
    # further layouts of the three names (characters that are separators elsewhere, map deeper / shallower than
    # the output, blanks and non-ASCII), with each way of passing the map stream
    for nk in more_names:
        for mk in ('factory', 'open', 'same'):
            for npaths in (True, False):
                k += 1
                if k % ctx.nshards == ctx.shard:
                    yield ('factory', mk, nk, 'several' if npaths else 'single', 'pretty' if k % 2 else 'minify_obfuscate',
                           'default', npaths, tuple(PROGRAMS[(k + j) % 5] for j in range(3 if npaths else 1)))
    # the mapping normalisation switched off (the lower-level API with normalize=False is the reference then)
    for j, prog in enumerate(PROGRAMS):
        for mk in ('same', 'factory', 'open'):
            k += 1
            if k % ctx.nshards == ctx.shard:
                yield ('factory', mk, 'relative', 'single' if j % 2 else 'list',
                       'pretty!raw' if j % 3 else 'minify_obfuscate!raw', 'default', True,
                       (prog,) if j % 2 else (prog, PROGRAMS[(j + 1) % len(PROGRAMS)]))
    # factories that return themselves (a lazily opening file object): obtained by calling, hence closed, once
    for j, prog in enumerate(PROGRAMS[:6]):
        for ok, mk in (('selffactory', 'none'), ('selffactory', 'factory'), ('factory', 'selffactory'), ('selffactory', 'selffactory'),
                       ('open', 'selffactory'), ('selffactory', 'open')):
            k += 1
            if k % ctx.nshards == ctx.shard:
                ctx.hit('self_returning_factory')
                yield (ok, mk, 'relative' if j % 2 else 'absolute', 'single' if j % 3 else 'list', 'pretty' if j % 2 else 'minify_obfuscate',
                       'default', True, (prog,) if j % 3 else (prog, PROGRAMS[(j + 2) % len(PROGRAMS)]))
    # output streams that declare an encoding: the inline map is written in it and says so; what it cannot
    # represent cannot be written
    for prog in PROGRAMS:
        for enc in ('utf-8', 'latin-1', 'ascii', 'shift_jis', 'utf-16'):
            for ok, pn in (('factory', 'minify_obfuscate'), ('open', 'pretty')):
                k += 1
                if k % ctx.nshards == ctx.shard:
                    yield (ok + '+' + enc, 'same', 'relative', 'single', pn, 'default', True, (prog,))


def run(ctx):
    smon = smmon.SourcemapMonitor(ctx, None)   # C09 contracts stay armed; violations surface in C09's own run
    for arr in arrangements(ctx):
        explore_write(ctx, arr)
        if ctx.out_of_time():
            break
    reads = [('factory', 'var a = 1;', '/abs/in.js'), ('open', 'var a = 1;', 'rel/in.js'), ('factory', 'var a = ;', 'bad.js'),
             ('open', 'x = /[/', 'bad2.js'), ('factory', 'a b', None), ('open', 'ok()', None), ('factory', '', 'empty.js')]
    # names that mean something to whatever builds the message (format characters, quotes, backslashes, non-ASCII)
    for nm in ('lib/my%20module.js', '/srv/static/100%.js', '%s.min.js', 'a%%b.js', '%(name)s.js', '{}.js', '{0}{name}.js',
               "it's.js", 'say "hi".js', 'back\\slash.js', '\u30bd\u30fc\u30b9.js', 'new\nline.js', ''):
        reads.append(('factory', 'var a = ;', nm))
        reads.append(('open', 'ok(', nm))
        reads.append(('open', 'var fine = 1;', nm))
    for i, (kind, text, name) in enumerate(reads):
        if i % ctx.nshards == ctx.shard:
            explore_read(ctx, kind, text, name)


def replay(ctx, witness):
    if witness.get('helper') == 'read':
        explore_read(ctx, witness['kind'], witness['text'], witness['name'])
    else:
        a = witness['arrangement']
        explore_write(ctx, tuple(a[:7]) + (tuple(a[7]),))


def canary(ctx, spec):
    sub = type(ctx)(ctx.prop, ctx.tier, ctx.seed, 0, 1, 60)
    replay(sub, spec)
    return next(iter(sub.viol_count), None)

"""
C13 - comment capture is faithful and does not perturb the parse.

Pair monitor (parse(t) vs parse(t, with_comments=True)) with the canonical
form ignoring comments; reflective audit of every attached comment against the
reference scanner's comment log (verbatim, position, order, at most once);
round-trip monitor on pretty_print of the commented tree comparing
(canonical tree, comment values in traversal order).
"""

from vk.boot import HarnessBroken
from vk import work, printing, known
from vk.gen import jsgen
from vk.ref import refjs
from vk import tree as vtree
from vk.tree import first_diff
from vk.ddmin import minimise_text

LEVEL = 'exploration'
RULE = ('inputs: token lists of corpus-like generated programs with a line comment (+ break) or a block comment '
        '(single- and multi-line) placed between every pair of adjacent tokens in turn (quick: every 2nd slot), plus '
        'random multi-placements, the corpus, and reserved words as property names with a comment / line break on either '
        'side x 9 continuations; a case = one text; non-trivial = at least one comment was attached '
        'to a node; distinct by text.')
ASSUMPTIONS = ['not every source comment has to be captured (documented limitation): dropped comments are counted, not '
               'flagged; where a comment is re-emitted is free as long as the re-parse agrees',
               'the "ES5 parser reads the output as the same tree" clause uses refjs on inputs refjs reads as the same tree']
BUDGET_S = {'quick': 100, 'thorough': 900}
REQUIRED_HITS = ['parse_pair', 'comment_audited', 'pretty_roundtrip', 'keyword_property_comments', 'comment_slot']
FLOOR = {'quick': 1500, 'thorough': 20000}


def comments_of(tree):
    """[(path, [comment nodes])] in reflective pre-order"""
    out = []
    for path, n in vtree.reflect_walk(tree):
        c = getattr(n, 'comments', None)
        if c is not None and vtree.kind_of(n) not in ('Comments',):
            out.append((path, n, list(c.children())))
    return out


def audit_comments(text, tree, ref_comments):
    """every attached comment is a verbatim source comment at its recorded
    position; in source order within a node; none attached twice"""
    out = []
    table = refjs.LineTable(text)
    by_start = dict((c.start, c) for c in ref_comments) if ref_comments is not None else None
    seen = {}
    n = 0
    for path, node, cs in comments_of(tree):
        last = -1
        for c in cs:
            n += 1
            pos, line, col, val = c.lexpos, c.lineno, c.colno, c.value
            kind = vtree.kind_of(c)
            if not isinstance(pos, int) or text[pos:pos + len(val)] != val:
                out.append(('C13:comment_not_verbatim', '%s at %s claims %r at offset %r; source there: %r' % (
                    kind, path, val[:30], pos, text[pos:pos + 20] if isinstance(pos, int) else None)))
                continue
            if by_start is not None and pos not in by_start:
                out.append(('C13:not_a_comment_there', '%s %r at offset %d is not a comment of the source '
                            '(inside a string or regex?)' % (kind, val[:30], pos)))
            elif by_start is not None:
                rc = by_start[pos]
                if rc.text != val or (rc.kind == 'line') != (kind == 'LineComment'):
                    out.append(('C13:comment_kind_or_extent', '%s %r vs source comment %r (%s)' % (
                        kind, val[:30], rc.text[:30], rc.kind)))
            if table.linecol(pos) != (line, col):
                out.append(('C13:comment_line_column', '%s at offset %d recorded as %s:%s, ES5 counting gives %s:%s' % (
                    (kind, pos, line, col) + table.linecol(pos))))
            if pos <= last:
                out.append(('C13:comments_out_of_order', 'comments of %s are not in source order' % path))
            last = pos
            if pos in seen:
                out.append(('C13:comment_attached_twice', 'the comment at offset %d is attached at %s and %s' % (
                    pos, seen[pos], path)))
            seen[pos] = path
    return out, n


def comment_sequence(tree):
    return [c.value for path, node, cs in comments_of(tree) for c in cs]


def judge_pair(plain, commented):
    """plain / commented: (canon or None, error)"""
    (c0, e0), (c1, e1) = plain, commented
    if (c0 is None) != (c1 is None):
        return ('C13:capture_changes_acceptance',
                'without capture: %s; with capture: %s' % ('accepted' if c0 is not None else e0,
                                                           'accepted' if c1 is not None else e1))
    if c0 is not None and c0 != c1:
        return ('C13:capture_changes_tree', 'trees differ apart from comments: %s' % first_diff(c0, c1))
    return None


def judge_roundtrip(ci, seq, out, c2, seq2, err2, ref_c, ref_err, es5):
    if c2 is None:
        return ('C13:commented_output_does_not_parse', 'pretty output of the commented tree is rejected: %s' % err2)
    if c2 != ci:
        return ('C13:commented_output_tree_changed', 'the emitted comments changed the tree: %s' % first_diff(ci, c2))
    if seq2 != seq:
        return ('C13:comment_sequence_changed', 'comments in traversal order were %r, after print and re-parse %r' % (
            [s[:16] for s in seq][:8], [s[:16] for s in seq2][:8]))
    if es5:
        if ref_c is None:
            return ('C13:commented_output_not_es5', 'a conforming parser rejects the output: %s' % ref_err)
        if ref_c != ci:
            return ('C13:commented_output_reads_differently', 'a conforming parser reads the output differently: %s'
                    % first_diff(ci, ref_c))
    return None


def selfcheck(ctx):
    a = ('P', (('children', (('Identifier', (('value', 'a'),)),)),))
    b = ('P', (('children', (('Identifier', (('value', 'b'),)),)),))
    planted = [judge_pair((a, None), (None, 'err')), judge_pair((a, None), (b, None)),
               judge_roundtrip(a, ['/*c*/'], 'o', None, None, 'e', None, None, True),
               judge_roundtrip(a, ['/*c*/'], 'o', b, ['/*c*/'], None, a, None, True),
               judge_roundtrip(a, ['/*c*/', '//d'], 'o', a, ['//d', '/*c*/'], None, a, None, True),
               judge_roundtrip(a, ['/*c*/'], 'o', a, ['/*c*/'], None, b, None, True)]
    ok = [judge_pair((a, None), (a, None)), judge_roundtrip(a, ['/*c*/'], 'o', a, ['/*c*/'], None, a, None, True)]

    class C(object):
        def __init__(self, value, lexpos, lineno, colno):
            self.value, self.lexpos, self.lineno, self.colno = value, lexpos, lineno, colno

        def children(self):
            return []

        def getpos(self):
            pass
    C.__name__ = 'BlockComment'

    class Cs(object):
        def __init__(self, items):
            self._children_list = items

        def children(self):
            return self._children_list

        def getpos(self):
            pass
    Cs.__name__ = 'Comments'

    class N(object):
        def __init__(self, comments):
            self.comments = comments

        def children(self):
            return []

        def getpos(self):
            pass
    text = '/* a */ x /* b */'
    rc = refjs.Scanner(text).skip(0)[2] + refjs.Scanner(text).skip(9)[2]
    good = audit_comments(text, N(Cs([C('/* a */', 0, 1, 1)])), rc)[0]
    planted += [audit_comments(text, N(Cs([C('/* a */', 1, 1, 2)])), rc)[0],
                audit_comments(text, N(Cs([C('/* a */', 0, 1, 3)])), rc)[0],
                audit_comments(text, N(Cs([C('/* b */', 10, 1, 11), C('/* a */', 0, 1, 1)])), rc)[0]]
    if not all(planted) or any(ok) or good:
        raise HarnessBroken('C13 oracle failed on planted observations %r %r %r' % (planted, ok, good))
    return len(planted) + 3


def parse_canon(text, with_comments):
    try:
        tree, err = work.run_impl(text, with_comments)
    except RecursionError:
        raise
    except Exception as e:
        return None, None, '%s: %s' % (type(e).__name__, e)
    if tree is None:
        return None, None, err
    return tree, vtree.canon_impl(tree), None


def roundtrip(tree, ci, es5):
    from calmjs.parse.unparsers.es5 import pretty_print
    out = pretty_print(tree)
    t2, c2, err2 = parse_canon(out, True)
    seq2 = comment_sequence(t2) if t2 is not None else None
    ref_c = ref_err = None
    if es5:
        _, ref_c, ref_err = printing.ref_canon(out)
    return out, c2, seq2, err2, ref_c, ref_err, t2


def evaluate(ctx, text, count=True):
    """returns list of (mech, detail), number of attached comments"""
    try:
        res, ref_err = work.run_ref(text)
        t0, c0, e0 = parse_canon(text, False)
        t1, c1, e1 = parse_canon(text, True)
    except RecursionError:
        return [], 0, None
    # triggers of parser-side findings (other properties') take the whole case away; the triggers of this
    # property's own open findings concern what the *printer* does with a comment and only take the
    # print-and-re-read half away: capture itself is still compared and audited
    own = getattr(ctx, '_own_suppressed', set())
    if work.uncertain(res, ref_err) or work.skip_known(ctx, text, res, names=ctx._suppressed - own):
        return [], 0, None
    printer_finding = False
    for name in own:
        if known.trigger(name, text, res) or (t1 is not None and known.trigger_tree(name, t1)):
            ctx.count('known_trigger:' + name)
            printer_finding = True
    if count:
        ctx.hit('parse_pair')
    v = judge_pair((c0, e0), (c1, e1))
    if v:
        return [v], 0, None
    if t1 is None:
        return [], 0, None
    viol, n = audit_comments(text, t1, res.comments if res is not None else None)
    if count:
        ctx.hit('comment_audited', n)
        if res is not None:
            ctx.count('source_comments', len(res.comments))
            ctx.count('attached_comments', n)
    if printer_finding:
        return viol, n, None
    es5 = res is not None and refjs.canon(res.tree) == c1
    seq = comment_sequence(t1)
    holders = {}
    for path, node, cs in comments_of(t1):
        for c in cs:
            holders.setdefault(c.value, []).append(vtree.kind_of(node))
    try:
        out, c2, seq2, err2, ref_c, ref_err2, t2 = roundtrip(t1, c1, es5)
    except RecursionError:
        return viol, n, None
    except Exception as e:
        # printing a tree with comments failed outright: there is no text for the second half of the statement
        viol.append(('C13:printer_raised:%s' % type(e).__name__, 'pretty printing the commented tree raised %s: %s' % (
            type(e).__name__, str(e)[:200])))
        return viol, n, None
    if count:
        ctx.hit('pretty_roundtrip')
    v = judge_roundtrip(c1, seq, out, c2, seq2, err2, ref_c, ref_err2, es5)
    if v:
        mech = v[0]
        if mech == 'C13:comment_sequence_changed' and seq2 is not None:
            # (multiset difference: two comments may have the same text)
            left = list(seq2)
            lost = []
            for x in seq:
                if x in left:
                    left.remove(x)
                else:
                    lost.append(x)
            if lost:
                # where did the printer put the comment that the next parse did not capture?
                # (the comment's text may also occur inside a string or regex of the output: take the
                # positions the reference scanner logs as comments when it can read the output)
                starts = None
                try:
                    starts = set(c.start for c in refjs.parse(out).comments)
                except (refjs.RefSyntaxError, RecursionError):
                    pass
                nxt = set()
                at = out.find(lost[0])
                while at >= 0:
                    if starts is None or at in starts:
                        try:
                            q, _, _ = refjs.Scanner(out).skip(at + len(lost[0]))
                            nxt.add(out[q:q + 1])
                        except refjs.RefSyntaxError:
                            pass
                    at = out.find(lost[0], at + 1)
                if '/' in nxt:
                    mech += ':lost_before_regex'
                else:
                    # the holder of the lost occurrence: the kinds holding that text which the re-parsed
                    # tree no longer has one of
                    kinds = holders.get(lost[0], ['?'])
                    kind = kinds[0]
                    if len(set(kinds)) > 1:
                        # several comments with this text: which occurrence is missing is read off the alignment
                        # of the two sequences (the node kind holding a surviving comment may change in print)
                        import difflib
                        gone = [i for tag, i1, i2, j1, j2 in difflib.SequenceMatcher(None, seq, seq2, autojunk=False).get_opcodes()
                                if tag in ('delete', 'replace') for i in range(i1, i2) if seq[i] == lost[0]]
                        if gone:
                            nth = seq[:gone[0]].count(lost[0])
                            if nth < len(kinds):
                                kind = kinds[nth]
                    mech += ':lost_from_' + kind
            elif sorted(seq) == sorted(seq2):
                mech += ':reordered'
            else:
                mech += ':duplicated'
        viol.append((mech, v[1] + '\noutput: %r' % out[:300]))
    return viol, n, out


class _Quiet(object):
    def __init__(self, ctx):
        self._suppressed = ctx._suppressed
        self._own_suppressed = getattr(ctx, '_own_suppressed', set())

    def count(self, *a, **k):
        pass

    def hit(self, *a, **k):
        pass


def check(ctx, text, origin):
    viol, n, out = evaluate(ctx, text)
    ctx.case(text, n >= 1, sample={'origin': origin, 'text': text[:160], 'attached_comments': n,
                                   'output': (out or '')[:160]}
             if (n >= 1 and ctx.rng.random() < 0.002) else None)
    seen = set()
    for mech, detail in viol:
        if mech in seen:
            continue
        seen.add(mech)

        def failing(t):
            v2, _, _ = evaluate(_Quiet(ctx), t, count=False)
            return any(m == mech for m, _ in v2)
        small = text
        if len(text) > 12 and ctx.viol_count[mech] < 2:
            try:
                small = minimise_text(text, failing, 150)
            except Exception:
                small = text
        ctx.violation(mech, {'text': small, 'original': text if small != text else None},
                      '%s\ninput: %r' % (detail, small[:300]))


COMMENTS = [('block', '/* c */'), ('block_multiline', '/* c\n d */'), ('line', '// c\n'), ('block_crlf', '/*\r\n*/'),
            ('empty_block', '/**/'), ('line_empty', '//\n'), ('block_stars', '/***/'),
            # the body of a comment is part of it: trailing / leading white space, a tab, NBSP, nested openers
            ('line_trailing_blanks', '// c  \n'), ('line_trailing_tab', '//c\t\n'), ('line_nbsp', '// c\xa0\n'),
            ('block_padded', '/*  c  */'), ('block_trailing_blank_lines', '/* c \n \n*/'), ('line_openers', '// /* c\n')]


def with_comment(toks, i, comment):
    """text of the token list with ``comment`` inserted before token i"""
    out = []
    for k, (t, tag) in enumerate(toks):
        if k == i:
            out.append(comment)
        out.append(t)
    if i >= len(toks):
        out.append(comment)
    return ' '.join(out)


def run(ctx):
    rng = ctx.rng

    def opts_fn(i, r):
        return jsgen.Opts(clean=(i % 2 == 0), max_stmts=3, max_depth=4, unicode_idents=(i % 5 == 1), string_continuations=(i % 3 == 0))
    progs = work.Programs(ctx, ctx.per_shard(55, 1100), opts_fn=opts_fn, layouts=('space',))
    step = ctx.pick(2, 1)
    for text, meta in progs:
        toks = meta['toks']
        if not toks:
            check(ctx, text, 'corpus')
            continue
        n = len(toks)
        off = rng.randrange(step)
        for i in range(off, n + 1, step):
            name, c = COMMENTS[(i + len(text)) % len(COMMENTS)]
            check(ctx, with_comment(toks, i, c), 'single:' + name)
            ctx.count('placement:' + name)
        for _ in range(ctx.pick(2, 6)):
            t = jsgen.render(toks, 'random', rng, lt=rng.choice(['\n', '\r\n', '\r']), comments=True)
            check(ctx, t, 'multi')
        if ctx.out_of_time():
            break
    progs.report()
    for k, text in enumerate(slot_texts()):
        if k % ctx.nshards == ctx.shard:
            check(ctx, text, 'slot')
            ctx.hit('comment_slot')
    # comments on both sides of one token: reserved words as property names (where they are plain names: no
    # restricted production, no regex after them), with what follows them on the same or the next line
    words = ['return', 'throw', 'break', 'continue', 'if', 'in', 'new', 'typeof', 'function', 'get', 'catch', 'x']
    gaps = ['', ' /*c*/ ', '/*c\n*/', ' //c\n', '\n', '/**/']
    follows = ['(1)', '.b', ' = 1', '[0]', '++', ' / 2', '', '\n(1)', ' ? 1 : 2']
    idx = 0
    for w in words:
        for g1 in gaps:
            for g2 in gaps:
                if not (g1 or g2):
                    continue
                for f in follows:
                    idx += 1
                    if idx % ctx.nshards != ctx.shard or (ctx.tier == 'quick' and (idx // ctx.nshards) % 3):
                        continue
                    check(ctx, 'x = a.%s%s%s%s;' % (g1, w, g2, f), 'keyword_property_comments')
                    ctx.hit('keyword_property_comments')
                # ... and as keys of an object literal and names of accessors
                for tpl in ('x = {%s%s%s: 1, b: 2};', 'x = {a: 0,%s%s%s: 1};', 'x = {get %s%s%s() { return 1; }};'):
                    idx += 1
                    if idx % ctx.nshards != ctx.shard or (ctx.tier == 'quick' and (idx // ctx.nshards) % 2):
                        continue
                    check(ctx, tpl % (g1, w, g2), 'keyword_key_comments')
                    ctx.hit('keyword_property_comments')


# one comment in a slot that belongs to an unusual node or to no node at all ('@' marks the slot)
SLOT_TEMPLATES = [
    'x = [1, @, 2];', 'x = [@, 1];', 'x = [1, , @, 2];', 'x = [@];', 'x = [@,];', 'x = [ , @];', 'f(@);', 'f(a, @ b);', 'f(a @);',
    'x = {@};', 'x = {a: 1, @};', 'x = {a @: 1};', 'x = {a: @ 1};', 'x = {get @ a() {}};', 'x = {get a(@) {}};',
    'x = {set a(v @) {}};', 'function f(@) {}', 'function f(a, @ b) {}', 'function f() {@}', 'function @ f() {}',
    'x = function @ () {};', 'x = a ? @ b : c;', 'x = a ? b @ : c;', 'x = a ? b : @ c;', 'if (@ a) b;', 'if (a @) b;',
    'if (a) b; @ else c;', 'if (a) b; else @ c;', 'for (@ ; ; ) x;', 'for (a; @ b; c) x;', 'for (a; b; @) x;', 'for (a; b; c @) x;',
    'for (var @ k in o) x;', 'for (k @ in o) x;', 'while (@ a) x;', 'do x; @ while (a);', 'do x; while (a) @;',
    'switch (a) {@}', 'switch (a) { case @ 1: x; }', 'switch (a) { case 1 @: x; }', 'switch (a) { case 1: x; @ default: y; }',
    'switch (a) { default @: y; }', 'try {@} catch (e) {}', 'try {} catch (@ e) {}', 'try {} catch (e @) {}', 'try {} @ finally {}',
    'l @: x;', '@ l: x;', 'new @ F(a);', 'new F @ (a);', 'x = a @ . b;', 'x = a[@ 0];', 'x = a[0 @];', 'x = (@ a);', 'x = (a @);',
    'x = @ -a;', 'x = - @ a;', 'x = a @ ++;', 'x = ++ @ a;', 'x = typeof @ a;', 'x = a @ , b;', 'var @ a;', 'var a @ = 1;',
    'var a = 1 @, b;', 'var a = 1, @ b;', 'x = a @ instanceof b;', 'x = a in @ b;', 'debugger @;', '@;', '{@}', '{ ; @ }',
    'with (@ a) x;', 'throw @ a;', 'x = /re/ @ .test(a);', 'x = "s" @ .length;', 'x = 1 @ .toFixed();',
]


def slot_texts():
    for tpl in SLOT_TEMPLATES:
        for c in ('/* c */', '/* c\n d */', '// c\n', '/**/'):
            if c.startswith('//') or '\n' in c:
                # a line break in the slot changes what is derivable around restricted productions: those texts
                # are judged like every other (rejected by both sides or skipped as known)
                pass
            yield tpl.replace('@', ' ' + c + ' ')


def replay(ctx, witness):
    for key in ('text', 'original'):
        if witness.get(key):
            check(ctx, witness[key], 'replay')


def canary(ctx, spec):
    sub = type(ctx)(ctx.prop, ctx.tier, ctx.seed, 0, 1, 30)
    sub._suppressed = set()
    sub._own_suppressed = set()
    check(sub, spec['text'], 'canary')
    return next(iter(sub.viol_count), None)

"""
C14 - unparsing is pure: tree unchanged, printers reusable, shortcuts agree.

History monitor: operations full(p,t), abandon(p,t,k) (consume k fragments,
close the generator), raise(p,t,k) (a failpoint raising inside a rule while the
call runs) and shortcut(text,kw) over a pool of trees and printer *objects*;
after every operation the deep fingerprints of all pool trees and of the shared
objects are compared with their creation snapshots and results are compared
with goldens obtained from freshly constructed identical printers on freshly
parsed trees.  Invariant hooks: every print call constructs its own
Indentator / Obfuscator.
"""

import itertools

from vk.boot import HarnessBroken
from vk import probe, work
from vk.gen import jsgen
from vk import tree as vtree

LEVEL = 'exploration'
RULE = ('histories over a pool of 15 trees (elisions, nested scopes, comments, two source paths, one scope of 420 names) and 15 printer objects '
        '(pretty x 3 indents, minify x drop_semi, obfuscating x {globals, shadow}, obfuscate+indent composition, '
        'extractor x fold_ops): every history of length <= 2 (thorough: 3) over a reduced alphabet, and random '
        'histories of 50-200 operations favouring abandon / raise immediately before a full call on the same printer, '
        'incl. two calls of one printer alive at once; histories of 24 es5.pretty_print / es5.minify_print / es5() calls '
        'over 23 valid and invalid texts against the explicit calls; '
        'a case = one history; non-trivial = it has at least two operations touching one printer or tree; distinct by '
        'the operation sequence.')
ASSUMPTIONS = ['behaviour of a generator after it raised, and identity (as opposed to equality) of fragments, are not demanded']
BUDGET_S = {'quick': 120, 'thorough': 600}
REQUIRED_HITS = ['full', 'abandon', 'raise', 'shortcut', 'str', 'fingerprints_compared', 'Indentator()', 'Obfuscator()',
                 'shortcut_history_step', 'interleave', 'fresh_result_retaken', 'shortcut_sweep']
FLOOR = {'quick': 200, 'thorough': 2000}

TEXTS = [
    'var a = 1, b;',
    'x = [1, , 2, , , 3, ];',
    'function f(a, b) { var c = a + b; return function g(d) { return c + d + free; }; }',
    'if (a) { b(); } else if (c) d; else { e = {k: 1, get p() { return 1; }, set p(v) { q = v; }}; }',
    'switch (x) { case 1: y; break; default: z; case 2: }',
    'try { a } catch (e) { var e2 = e; } finally { c }',
    'outer: for (var i = 0; i < n; i++) { for (k in o) { if (k) continue outer; else break; } }',
    '/* lead */ var s = "a\\\nb"; // trailing\n/* block\n comment */ t = /re/g.test(s) ? void 0 : typeof s;',
    'do x(); while (y)\nwith (o) z;\nthrow new Error("e");',
    'var deep = function () { return function inner(aa, bb) { var cc; function decl() { return aa + bb + cc; } return decl; }; };',
    '(function () { "use strict"; var long_name_one = 1, long_name_two = long_name_one; return long_name_two; })();',
    'a = b ? c : d, e = f || g && h; i++; --j; delete k.l; m = [, ]; n = {};',
    # a scope with several hundred names: generated names get two letters and pass 'do', 'if', 'in'
    'function many(p0, p1) { var %s; return v0 + v419 + p0 + p1 + free; }' % ', '.join('v%d' % i for i in range(420)),
    # scopes of every kind nested in one another, with free one-letter names (what one call leaves behind about
    # them is what the next call's name generator would step around) ...
    'try { g(); } catch (err) { handler = function (x) { return a + b + c + d + x + err; }; label: for (;;) break label; }',
    # ... and a tree that would notice: few names, a catch clause, a named function expression, an accessor
    'function f(p) { try { g(p); } catch (e) { h(e); } var o = {get q() { var r = p; return r; }}; return function n(s) { return n(s) + o; }; }',
]


class FaultInjected(Exception):
    pass


def printers():
    """name -> factory of a printer object (callable node -> iterable)"""
    import functools
    from calmjs.parse.unparsers.es5 import pretty_printer, minify_printer, Unparser, definitions
    from calmjs.parse.unparsers.base import BaseUnparser
    from calmjs.parse.unparsers.walker import Dispatcher
    from calmjs.parse.unparsers.extractor import extractor
    from calmjs.parse import rules
    from calmjs.parse.lexers.es5 import Lexer
    return [
        ('pretty2', lambda: pretty_printer('  ')),
        ('pretty_tab', lambda: pretty_printer('\t')),
        ('pretty_empty', lambda: pretty_printer('')),
        ('minify', lambda: minify_printer()),
        ('minify_drop', lambda: minify_printer(drop_semi=True)),
        ('obfuscate', lambda: minify_printer(obfuscate=True)),
        ('obfuscate_globals', lambda: minify_printer(obfuscate=True, obfuscate_globals=True, drop_semi=True)),
        ('obfuscate_shadow', lambda: minify_printer(obfuscate=True, shadow_funcname=True)),
        ('obfuscate_indent', lambda: Unparser(rules=(rules.obfuscate(obfuscate_globals=True,
                                                                     reserved_keywords=Lexer.keywords_dict.keys()),
                                                     rules.indent('  ')))),
        ('extractor', lambda: extractor()),
        ('extractor_fold', lambda: extractor(fold_ops=True)),
        # printers built with the optional constructor arguments: caller-owned lists / dicts of extra hooks and
        # handlers (a pure hook and handlers that change nothing)
        ('obfuscate_with_hook_list', lambda: Unparser(
            rules=(rules.minify(drop_semi=False),
                   rules.obfuscate(obfuscate_globals=True, reserved_keywords=Lexer.keywords_dict.keys())),
            prewalk_hooks=[_pure_hook])),
        # the Dispatcher class is a constructor argument too: its newline and indentation strings configure the
        # layout handlers (one line, CRLF, TAB)
        ('dispatcher_one_line', lambda: BaseUnparser(
            definitions, rules=(rules.indent(),), dispatcher_cls=functools.partial(Dispatcher, newline_str=''))),
        ('dispatcher_crlf_tab', lambda: BaseUnparser(
            definitions, rules=(rules.indent(),), dispatcher_cls=functools.partial(Dispatcher, newline_str='\r\n',
                                                                                 indent_str='\t'))),
        ('pretty_with_handler_dicts', lambda: Unparser(
            rules=(rules.indent('  '),), layout_handlers={}, deferrable_handlers={}, prewalk_hooks=[_pure_hook, _pure_hook])),
    ]


def _pure_hook(dispatcher, node):
    return node


def frag_key(f):
    """comparable form of whatever a printer yields"""
    if isinstance(f, tuple):
        return tuple(frag_key(x) for x in f)
    if vtree._is_node(f):
        return ('node', vtree.kind_of(f), getattr(f, 'lexpos', None))
    if isinstance(f, (list,)):
        return tuple(frag_key(x) for x in f)
    if isinstance(f, dict):
        return tuple(sorted((repr(k), frag_key(v)) for k, v in f.items()))
    if f is NotImplemented:
        return 'NotImplemented'
    if isinstance(f, type):
        return f.__name__
    if isinstance(f, (str, int, float, bool)) or f is None:
        return f
    return frag_key(list(f)) if hasattr(f, '__iter__') else repr(type(f))


class World(object):
    def __init__(self, ctx):
        from calmjs.parse.parsers.es5 import parse
        self.ctx = ctx
        self.parse = parse
        self.texts = TEXTS
        self.trees = []
        for i, t in enumerate(TEXTS):
            tr = parse(t, with_comments=(i % 2 == 1))
            tr.sourcepath = 'src/%s.js' % ('a' if i % 3 else 'b')
            self.trees.append(tr)
        self.tree_fp = [vtree.fingerprint(t) for t in self.trees]
        self.pdefs = printers()
        self.printers = [make() for name, make in self.pdefs]
        self.golden = {}
        self.shared_fp = self.shared_fingerprint()

    def shared_fingerprint(self):
        import calmjs.parse.ruletypes as rt
        import calmjs.parse.unparsers.es5 as ues5
        import calmjs.parse.unparsers.extractor as uext
        import calmjs.parse.handlers.core as core

        def defs(d):
            def rule(r):
                if isinstance(r, type):
                    return r.__name__
                v = getattr(r, 'value', None)
                a = getattr(r, 'attr', None)
                return (type(r).__name__, a if isinstance(a, (str, type(None))) else type(a).__name__,
                        tuple(rule(x) for x in v) if isinstance(v, tuple) else
                        (tuple(sorted((repr(k), tuple(rule(x) for x in vv)) for k, vv in v.items()))
                         if isinstance(v, dict) else repr(v)), getattr(r, 'pos', None))
            return tuple(sorted((k, tuple(rule(r) for r in v)) for k, v in d.items()))
        return (
            vtree.fingerprint(rt.ElisionJoinAttr.sep),
            defs(ues5.definitions), defs(uext.definitions),
            tuple(sorted(core.assignment_tokens)), tuple(sorted(map(repr, core.optional_rhs_space_tokens))),
            tuple(core.space_imply), tuple(core.space_drop),
            tuple(sorted((getattr(k, '__name__', repr(k)), getattr(v, '__name__', repr(v)))
                         for k, v in core.default_rules()['layout_handlers'].items())),
            tuple(sorted((getattr(k, '__name__', repr(k)), getattr(v, '__name__', repr(v)))
                         for k, v in core.minimum_rules()['layout_handlers'].items())),
        )

    def gold(self, pi, ti):
        key = (pi, ti)
        if key not in self.golden:
            fresh_tree = self.parse(self.texts[ti], with_comments=(ti % 2 == 1))
            fresh_tree.sourcepath = self.trees[ti].sourcepath
            try:
                self.golden[key] = ('ok', [frag_key(f) for f in self.pdefs[pi][1]()(fresh_tree)])
            except FaultInjected:
                raise
            except Exception as e:
                self.golden[key] = ('raises', type(e).__name__, str(e)[:120])
        return self.golden[key]


class Failpoint(object):
    """raises FaultInjected at the k-th evaluation of a Text rule while armed"""

    def __init__(self):
        self.armed = None
        self.n = 0

    def install(self):
        import calmjs.parse.ruletypes as rt
        orig = rt.Text.__call__
        me = self

        def call(self_, walk, dispatcher, node):
            if me.armed is not None:
                me.n += 1
                if me.n >= me.armed:
                    me.armed = None
                    raise FaultInjected('failpoint in Text rule')
            for chunk in orig(self_, walk, dispatcher, node):
                yield chunk
        self.orig = orig
        rt.Text.__call__ = call
        self.rt = rt
        return self

    def remove(self):
        self.rt.Text.__call__ = self.orig


class Ctors(object):
    def __init__(self, ctx):
        self.ctx = ctx
        self.counts = {'Indentator': 0, 'Obfuscator': 0}

    def install(self):
        import calmjs.parse.rules as rules
        me = self
        self.rules = rules
        self.orig = (rules.Indentator, rules.Obfuscator)

        class Ind(rules.Indentator):
            def __init__(self, *a, **k):
                me.counts['Indentator'] += 1
                me.ctx.hit('Indentator()')
                super(Ind, self).__init__(*a, **k)

        class Obf(rules.Obfuscator):
            def __init__(self, *a, **k):
                me.counts['Obfuscator'] += 1
                me.ctx.hit('Obfuscator()')
                super(Obf, self).__init__(*a, **k)
        rules.Indentator, rules.Obfuscator = Ind, Obf
        return self

    def remove(self):
        self.rules.Indentator, self.rules.Obfuscator = self.orig


def audit_state(world):
    """tree and shared-object fingerprints against their creation snapshots"""
    out = []
    for i, t in enumerate(world.trees):
        if vtree.fingerprint(t) != world.tree_fp[i]:
            out.append(('C14:tree_modified', 'tree %d (%r) differs from its fingerprint at creation' % (i, world.texts[i][:50])))
    if world.shared_fingerprint() != world.shared_fp:
        out.append(('C14:shared_object_modified', 'a module-level definition / rule table / shared separator node changed'))
    return out


def run_history(ctx, world, fp, ctors, history):
    """executes one history; returns list of (mech, detail)"""
    viol = []
    for step, op in enumerate(history):
        kind = op[0]
        if kind in ('full', 'abandon', 'raise'):
            pi, ti = op[1], op[2]
            printer = world.printers[pi]
            pname = world.pdefs[pi][0]
            gold = world.gold(pi, ti)
            before = dict(ctors.counts)
            if kind == 'full':
                try:
                    got = ('ok', [frag_key(f) for f in printer(world.trees[ti])])
                except Exception as e:
                    got = ('raises', type(e).__name__, str(e)[:120])
                ctx.hit('full')
                if got != gold:
                    d = ''
                    if got[0] == gold[0] == 'ok':
                        for k, (a, b) in enumerate(zip(got[1], gold[1])):
                            if a != b:
                                d = ' first difference at fragment %d: %r vs %r' % (k, a, b)
                                break
                        else:
                            d = ' lengths %d vs %d' % (len(got[1]), len(gold[1]))
                    prev = history[step - 1][0] if step else 'start'
                    viol.append(('C14:result_differs_from_fresh_printer:after_%s' % prev,
                                 'printer %s on tree %d gave a result different from a fresh identical printer.%s %s' % (
                                     pname, ti, d, (got if got[0] != 'ok' else ''))))
            elif kind == 'abandon':
                gen = iter(printer(world.trees[ti]))
                try:
                    for _ in range(op[3]):
                        next(gen)
                except StopIteration:
                    pass
                except Exception:
                    pass
                if hasattr(gen, 'close'):
                    gen.close()
                ctx.hit('abandon')
            else:
                fp.armed, fp.n = op[3], 0
                try:
                    list(printer(world.trees[ti]))
                    ctx.count('failpoint_not_reached')
                except FaultInjected:
                    ctx.hit('raise')
                except Exception as e:
                    ctx.count('raise_other:%s' % type(e).__name__)
                finally:
                    fp.armed = None
            # every print call that actually ran builds its own handler objects (a generator that was
            # never advanced has not run anything)
            if kind != 'full':
                pass
            elif 'pretty' in pname or pname == 'obfuscate_indent':
                if ctors.counts['Indentator'] <= before['Indentator']:
                    viol.append(('C14:indentator_not_per_call', 'printer %s did not construct an Indentator for this call' % pname))
            if kind == 'full' and pname.startswith('obfuscate'):
                if ctors.counts['Obfuscator'] <= before['Obfuscator']:
                    viol.append(('C14:obfuscator_not_per_call', 'printer %s did not construct an Obfuscator for this call' % pname))
        elif kind == 'interleave':
            # two calls of one printer object alive at the same time (a consumer that zips two outputs): the
            # fragments of each are those of the call alone
            pi, ti, tj = op[1], op[2], op[3]
            printer, pname = world.printers[pi], world.pdefs[pi][0]
            try:
                gens = [iter(printer(world.trees[ti])), iter(printer(world.trees[tj]))]
                outs = [[], []]
                alive = [0, 1]
                k = 0
                while alive:
                    w = alive[k % len(alive)]
                    k += 1
                    try:
                        outs[w].append(frag_key(next(gens[w])))
                    except StopIteration:
                        alive.remove(w)
                got = [('ok', outs[0]), ('ok', outs[1])]
            except Exception as e:
                got = [('raises', type(e).__name__, str(e)[:120])] * 2
            ctx.hit('interleave')
            for g, t in zip(got, (ti, tj)):
                if g != world.gold(pi, t):
                    viol.append(('C14:interleaved_calls_differ', 'printer %s applied to trees %d and %d with both calls '
                                 'advanced alternately: the result for tree %d differs from a fresh printer %s' % (
                                     pname, ti, tj, t, g if g[0] != 'ok' else '')))
                    break
        elif kind == 'shortcut':
            from calmjs.parse import es5
            from calmjs.parse.unparsers.es5 import pretty_print, minify_print
            text, which, kw = world.texts[op[1]], op[2], dict(op[3])
            ctx.hit('shortcut')
            def outcome(call):
                try:
                    return call()
                except FaultInjected:
                    raise
                except Exception as e:
                    return 'raised %s: %s' % (type(e).__name__, str(e)[:80])
            if which in ('pretty', 'minify'):
                f, g = (es5.pretty_print, pretty_print) if which == 'pretty' else (es5.minify_print, minify_print)
                a = outcome(lambda: f(text, **kw))
                b = outcome(lambda: g(world.parse(text), **kw))
            else:
                # the same options given by position, as the signatures of the explicit functions allow
                pos = tuple(v for k, v in op[3])
                f, g = (es5.pretty_print, pretty_print) if which == 'pretty_positional' else (es5.minify_print, minify_print)
                a = outcome(lambda: f(text, *pos))
                b = outcome(lambda: g(world.parse(text), *pos))
            if a != b:
                viol.append(('C14:shortcut_differs:%s' % which, 'es5.%s(text, %r) differs from the explicit '
                             'parse-then-print: %r vs %r' % (which, kw, a[:80], b[:80])))
        elif kind == 'str':
            from calmjs.parse.unparsers.es5 import pretty_print
            t = world.trees[op[1]]
            nodes = [t] + [n for p, n in itertools.islice(vtree.reflect_walk(t), 1, 12)
                           if vtree.kind_of(n) not in ('Comments', 'LineComment', 'BlockComment')]
            for n in nodes:
                ctx.hit('str')
                if str(n) != pretty_print(n):
                    viol.append(('C14:str_differs_from_pretty_print', 'str(%s) != pretty_print(node)' % vtree.kind_of(n)))
                    break
        state = audit_state(world)
        ctx.hit('fingerprints_compared', len(world.trees) + 1)
        for m, d in state:
            viol.append((m + ':after_%s' % kind, d + ' (after step %d: %r)' % (step, list(op))))
        if viol:
            break
    return viol


def selfcheck(ctx):
    class W(object):
        pass
    w = W()
    from calmjs.parse.parsers.es5 import parse
    w.trees = [parse('a = [1,,2];')]
    w.texts = ['a = [1,,2];']
    w.tree_fp = [vtree.fingerprint(t) for t in w.trees]
    w.shared_fp = 1
    w.shared_fingerprint = lambda: 1
    ok = audit_state(w)
    w.trees[0].children()[0].expr.right.items[1].value = 2       # a handler "annotating" a node
    bad = audit_state(w)
    w.shared_fingerprint = lambda: 2
    bad2 = audit_state(w)
    if ok or not bad or len(bad2) < 2:
        raise HarnessBroken('C14 state audit failed on planted observations')
    return 3


def nontrivial(history):
    ps = [op[1] for op in history if op[0] in ('full', 'abandon', 'raise')]
    ts = [op[2] for op in history if op[0] in ('full', 'abandon', 'raise')]
    return len(history) >= 2 and (len(ps) != len(set(ps)) or len(ts) != len(set(ts)))


def run(ctx):
    fp = Failpoint().install()
    ctors = Ctors(ctx).install()
    try:
        world = World(ctx)
        rng = ctx.rng
        np_, nt = len(world.printers), len(world.trees)
        shortcut_kws = [('pretty', ()), ('pretty', (('indent_str', '\t'),)), ('minify', ()),
                        ('minify', (('obfuscate', True), ('drop_semi', True))),
                        ('minify', (('obfuscate', True), ('obfuscate_globals', True), ('shadow_funcname', True))),
                        ('pretty_positional', (('indent_str', '\t'),)), ('pretty_positional', (('indent_str', ''),)),
                        ('minify_positional', (('obfuscate', True),)),
                        ('minify_positional', (('obfuscate', False), ('obfuscate_globals', True))),
                        ('minify_positional', (('obfuscate', True), ('obfuscate_globals', False), ('shadow_funcname', False),
                                               ('drop_semi', True)))]

        def report(viol, history):
            seen = set()
            for mech, detail in viol:
                if mech in seen:
                    continue
                seen.add(mech)
                ctx.violation(mech, {'history': [list(map(lambda x: list(x) if isinstance(x, tuple) else x, op)) for op in history]},
                              '%s\nhistory: %r' % (detail, history[-6:]))

        # every printer, used once on a small tree, then on each tree of the pool
        for pi in range(np_):
            if pi % ctx.nshards != ctx.shard:
                continue
            hist = [('full', pi, 0)] + [('full', pi, ti) for ti in range(nt - 1, -1, -1)]
            v = run_history(ctx, world, fp, ctors, hist)
            ctx.case(tuple(hist), True)
            report(v, hist)

        # every printer with two of its calls alive at once (same tree twice; two trees), then alone again
        for pi in range(np_):
            if pi % ctx.nshards != ctx.shard:
                continue
            hist = [('interleave', pi, 1, 1), ('interleave', pi, 2, 7), ('full', pi, 2), ('full', pi, 1)]
            v = run_history(ctx, world, fp, ctors, hist)
            ctx.case(tuple(hist), True)
            report(v, hist)

        # exhaustive short histories over a reduced alphabet (partitioned over the shards)
        red_p = [0, 2, 4, 6, 8, 9]
        red_t = [1, 2, 7]
        alphabet = []
        for pi in red_p:
            for ti in red_t:
                alphabet += [('full', pi, ti), ('abandon', pi, ti, 3), ('raise', pi, ti, 4)]
        L = ctx.pick(2, 3)
        idx = 0
        complete = True
        for n in range(1, L + 1):
            for hist in itertools.product(alphabet, repeat=n):
                idx += 1
                if idx % ctx.nshards != ctx.shard:
                    continue
                if n == 3 and hist[0][1] != hist[2][1] and hist[1][1] != hist[2][1]:
                    continue        # keep triples in which the last call reuses an earlier printer
                hist = list(hist)
                if hist[-1][0] != 'full':
                    hist.append(('full', hist[-1][1], hist[-1][2]))
                v = run_history(ctx, world, fp, ctors, hist)
                ctx.case(tuple(hist), nontrivial(hist))
                report(v, hist)
                if not (idx & 0x3f) and ctx.time_left() < ctx.budget_s * 0.45:
                    complete = False
                    break
            if not complete:
                break
        ctx.extra['short_histories_complete'] = complete
        ctx.extra['short_history_length'] = L
        ctx.extra['reduced_alphabet_size'] = len(alphabet)

        # random long histories
        pairs = set()
        for h in range(ctx.per_shard(10, 150)):
            hist = []
            for _ in range(rng.randint(50, 200)):
                r = rng.random()
                pi, ti = rng.randrange(np_), rng.randrange(nt)
                if hist and r < 0.35 and hist[-1][0] in ('abandon', 'raise'):
                    hist.append(('full', hist[-1][1], rng.choice([hist[-1][2], ti])))
                elif r < 0.45:
                    hist.append(('full', pi, ti))
                elif r < 0.65:
                    hist.append(('abandon', pi, ti, rng.randint(0, 12)))
                elif r < 0.85:
                    hist.append(('raise', pi, ti, rng.randint(1, 15)))
                elif r < 0.91:
                    w, kw = rng.choice(shortcut_kws)
                    hist.append(('shortcut', ti, w, kw))
                elif r < 0.95:
                    hist.append(('interleave', pi, ti, rng.choice([ti, rng.randrange(nt)])))
                else:
                    hist.append(('str', ti))
            for a, b in zip(hist, hist[1:]):
                pairs.add((a[0], b[0]))
            v = run_history(ctx, world, fp, ctors, hist)
            ctx.case(tuple(hist), True, sample={'length': len(hist), 'first_operations': [list(map(str, op)) for op in hist[:8]]}
                     if h < 2 else None)
            report(v, hist)
            if ctx.out_of_time():
                break
        ctx.extra['operation_pairs_seen__set'] = sorted('%s->%s' % p for p in pairs)
        # the reference results themselves were taken at different moments of this process' history (each at its
        # first use, from a fresh printer on a fresh tree): taken again now, after everything above, they are the same
        for (pi, ti), first in sorted(world.golden.items()):
            del world.golden[(pi, ti)]
            again = world.gold(pi, ti)
            world.golden[(pi, ti)] = first
            ctx.hit('fresh_result_retaken')
            if again != first:
                ctx.violation('C14:fresh_printer_result_depends_on_history', {'history': [['full', pi, ti]]},
                              'a fresh %s printer on a fresh tree %d (%r) gives a different result at the end of the run '
                              'than at its first use: what earlier calls of *other* printer objects left behind' % (
                                  world.pdefs[pi][0], ti, world.texts[ti][:60]))
        # histories of shortcut calls on source texts (valid and not)
        import random
        for h in range(ctx.per_shard(25, 400)):
            sseed = rng.getrandbits(32)
            hist, v = shortcut_history(ctx, random.Random(sseed), 24)
            ctx.case(('shortcut_history', sseed), True)
            for mech, detail in v[:1]:
                ctx.violation(mech, {'shortcut_seed': sseed, 'length': 24}, detail)
        # the shortcuts against the explicit calls over *texts* at large: whatever a shortcut does to the text on the way
        # (decoding, normalising line ends or Unicode, stripping) shows where the text has something to lose - line
        # terminators of every kind inside tokens, comments, characters outside ASCII
        pool = [t for k, t in enumerate(work.multiline_token_texts()) if k % ctx.nshards == ctx.shard]

        def opts_fn(i, r):
            return jsgen.Opts(clean=False, unicode_idents=True, string_continuations=True)
        progs = work.Programs(ctx, ctx.per_shard(40, 600), opts_fn=opts_fn)
        for text in itertools.chain(pool, (t for t, meta in progs)):
            v = shortcut_sweep(ctx, text)
            ctx.case(('shortcut_sweep', text), True)
            if v:
                ctx.violation(v[0], {'sweep_text': text}, v[1])
        ctx.extra['constructor_counts'] = dict(ctors.counts)
    finally:
        ctors.remove()
        fp.remove()


# texts for histories of shortcut calls: what a call could leave behind for the next one (a last token that
# decides how the next '/' is read, a pending comment, a failure in the middle of a token) and what would notice
SHORTCUT_TEXTS = ['a = b', '/re/.test(x)', 'x = 1 // trailing', 'x = /abc', 'f()', '/=/.exec(s)', 'a++', '/* lead */ y',
                  'var s = "unterminated', 'if (a) {}', '/x/g', 'o = {}', '} stray', 'return_ //', 'a /', '/ 2 / 3',
                  '[1, 2]', 'z /* open', 'k = 1;', "'use strict'\n/re/", 'this', 'while (0) ;', 'q = 1 /* c */']


def shortcut_sweep(ctx, text):
    """es5.pretty_print / es5.minify_print / es5() on one text, with and without comment capture, against the explicit calls"""
    from calmjs.parse import es5
    from calmjs.parse.parsers.es5 import parse
    from calmjs.parse.unparsers.es5 import pretty_print, minify_print

    def outcome(call):
        try:
            return call()
        except RecursionError:
            return 'resource_limit'
        except Exception as e:
            return 'raised %s: %s' % (type(e).__name__, str(e)[:80])
    for wc in (False, True):
        kw = {'with_comments': True} if wc else {}
        for which, f, g in (('pretty', es5.pretty_print, pretty_print), ('minify', es5.minify_print, minify_print)):
            a = outcome(lambda: f(text, **kw))
            b = outcome(lambda: g(parse(text, **kw)))
            ctx.hit('shortcut_sweep')
            if a != b and 'resource_limit' not in (a, b):
                k = next((i for i, (x, y) in enumerate(zip(a, b)) if x != y), min(len(a), len(b)))
                return ('C14:shortcut_differs:%s' % which,
                        'es5.%s(text%s) differs from %s_print(parse(text%s)) at character %d: %r vs %r\ninput: %r' % (
                            which + '_print', ', with_comments=True' if wc else '', which, ', with_comments=True' if wc else '', k,
                            a[max(0, k - 20):k + 20], b[max(0, k - 20):k + 20], text[:300]))
        a = outcome(lambda: vtree.fingerprint(es5(text, **kw)))
        b = outcome(lambda: vtree.fingerprint(parse(text, **kw)))
        if a != b and 'resource_limit' not in (a, b):
            return ('C14:shortcut_differs:tree', 'es5(text%s) and parse(text%s) give different trees\ninput: %r' % (
                ', with_comments=True' if wc else '', ', with_comments=True' if wc else '', text[:300]))
    return None


def shortcut_history(ctx, rng, length):
    """[(which, text index, with_comments)] run in order; every result against the explicit calls"""
    from calmjs.parse import es5
    from calmjs.parse.parsers.es5 import parse
    from calmjs.parse.unparsers.es5 import pretty_print, minify_print

    def outcome(call):
        try:
            return call()
        except Exception as e:
            return 'raised %s: %s' % (type(e).__name__, str(e)[:80])
    hist = [(rng.choice(['pretty', 'minify', 'tree']), rng.randrange(len(SHORTCUT_TEXTS)), rng.random() < 0.4)
            for _ in range(length)]
    viol = []
    for step, (which, ti, wc) in enumerate(hist):
        text = SHORTCUT_TEXTS[ti]
        kw = {'with_comments': True} if wc else {}
        if which == 'tree':
            a = outcome(lambda: vtree.fingerprint(es5(text, **kw)))
            b = outcome(lambda: vtree.fingerprint(parse(text, **kw)))
        else:
            f, g = (es5.pretty_print, pretty_print) if which == 'pretty' else (es5.minify_print, minify_print)
            a = outcome(lambda: f(text, **kw))
            b = outcome(lambda: g(parse(text, **kw)))
        ctx.hit('shortcut_history_step')
        if a != b:
            viol.append(('C14:shortcut_differs_after_history:%s' % which,
                         'step %d: es5.%s(%r%s) gives %r, the explicit parse-then-print %r; earlier calls: %r' % (
                             step, which if which != 'tree' else '__call__', text, ', with_comments=True' if wc else '',
                             str(a)[:80], str(b)[:80], [(w, SHORTCUT_TEXTS[t], c) for w, t, c in hist[max(0, step - 3):step]])))
            break
    return hist, viol


def replay(ctx, witness):
    if witness.get('sweep_text') is not None:
        v = shortcut_sweep(ctx, witness['sweep_text'])
        if v:
            ctx.violation(v[0], {'sweep_text': witness['sweep_text']}, v[1])
        return
    if witness.get('shortcut_seed') is not None:
        import random
        hist, viol = shortcut_history(ctx, random.Random(witness['shortcut_seed']), witness['length'])
        for mech, detail in viol:
            ctx.violation(mech, witness, detail)
        return
    fp = Failpoint().install()
    ctors = Ctors(ctx).install()
    try:
        world = World(ctx)
        hist = [tuple(tuple(x) if isinstance(x, list) else x for x in op) for op in witness['history']]
        for mech, detail in run_history(ctx, world, fp, ctors, hist):
            ctx.violation(mech, witness, detail)
    finally:
        ctors.remove()
        fp.remove()


def canary(ctx, spec):
    return None

"""
C09 - the source map decodes to exactly the positions the fragments carried.

Wrapper around the real ``sourcemap.write`` (vk/smmon.py) with a recording
stream; an independent generated-position tracker; refsm decodes the map made
by the real ``encode_sourcemap``.  Driven by the fragment streams of the real
printers and by synthetic well-formed streams.
"""

import io

from vk.boot import HarnessBroken
from vk import work, smmon
from vk.gen import jsgen
from vk.ref import refsm

LEVEL = 'exploration'
RULE = ('streams: (a) the fragment streams of pretty / minify / obfuscating printers over corpus and generated '
        'programs, single and 2-4 chained source files; (b) synthetic well-formed streams (explicit positions with '
        'forward / backward jumps and line changes, implied 0:0 and unmapped None fragments, renamed identifiers '
        'shorter / longer than the original, multi-line tokens, newline fragments, 1-5 interleaved sources, leading '
        'unmapped fragment, empty lines; one stream in eleven on the scale of a minified bundle: jumps of thousands of '
        'columns and lines), (c) four programs with a 1500-column line / 1300 lines, alone and followed by a short file, '
        'x {normalize on, off}; a case = (stream, normalize); non-trivial = at least 3 '
        'explicitly positioned fragments and at least one line break or rename; distinct by (stream, flag).')
ASSUMPTIONS = ['refsm decoder (written from the Source Map V3 document) and its generated-position tracker',
               'well-formed = shape required by the docstring of write(): line and column both present or both absent; '
               'a line break inside a fragment only when the fragment is explicitly positioned or the break is its last character']
BUDGET_S = {'quick': 60, 'thorough': 700}
REQUIRED_HITS = ['sourcemap.write', 'encode_sourcemap', 'explicit_fragments_verified', 'wide_program', 'sources_resolved']
FLOOR = {'quick': 3000, 'thorough': 40000}


def selfcheck(ctx):
    refsm.selftest()
    return 6


def synthetic(rng):
    """one well-formed synthetic fragment stream"""
    nsrc = rng.randint(1, 5)
    srcs = ['s%d.js' % i for i in range(nsrc)]
    frags = []
    n = rng.randint(3, 30)
    line, col = rng.randint(1, 5), rng.randint(1, 20)
    # most streams look like formatted code; some like minified bundles and generated data (lines thousands of
    # columns long, files thousands of lines long), where the running deltas leave the one- and two-digit range
    scale = rng.choice([1, 1, 1, 1, 1, 1, 1, 30, 300, 2000, 40000])
    first_source_given = False
    if rng.random() < 0.2:
        frags.append((rng.choice(['  ', '/*x*/', 'pre']), None, None, None, None))
    for i in range(n):
        r = rng.random()
        if r < 0.5:
            # explicitly positioned token
            j = rng.random()
            if j < 0.5:
                col += rng.randint(1, 6 * scale)
            elif j < 0.7:
                line += rng.randint(1, 3 * scale)
                col = rng.randint(1, 10)
            elif j < 0.85:
                col = max(1, col - rng.randint(1, 8 * scale))
            else:
                line = max(1, line - rng.randint(1, 3 * scale))
                col = rng.randint(1, 30 * scale)
            text = rng.choice(['a', 'foo', 'x1', '+', '===', 'function', '"str"', '1234', ';', '(', ')', '{', '}'])
            name = None
            if text[0].isalpha() and rng.random() < 0.3:
                # (also: the fragment's own text recorded as its original name - not a renaming, but the
                # writer's bookkeeping of names sees it)
                name = rng.choice(['original', 'o', 'aVeryLongOriginalName', text + 'x', text, text])
            if rng.random() < 0.08:
                text = rng.choice(['"a\\\nb"', '/* c\n d */', "'x\\\r\ny'"])
                name = None
            source = None
            if not first_source_given or rng.random() < 0.25:
                source = rng.choice(srcs) if rng.random() < 0.93 else NotImplemented
                first_source_given = True
            frags.append((text, line, col, name, source))
        elif r < 0.72:
            frags.append((rng.choice([' ', ' ', '  ', ',', ';']), 0, 0, None, None))
        elif r < 0.86:
            frags.append((rng.choice(['\n', '\r\n', '\n', '\r']), 0, 0, None, None))
        elif r < 0.93:
            frags.append((rng.choice(['  ', '\t', '    ']), None, None, None, None))
        else:
            frags.append((rng.choice(['\n', 'x\n']), None, None, None, None))
    # a line break is one fragment: never a CR fragment directly followed by an LF
    out = []
    for f in frags:
        if out and out[-1][0].endswith('\r') and f[0].startswith('\n'):
            continue
        out.append(f)
    return out


def nontrivial(frags):
    ex = sum(1 for f in frags if f[1] and f[2])
    brk = any(('\n' in f[0] or '\r' in f[0]) for f in frags)
    ren = any(f[3] is not None for f in frags)
    return ex >= 3 and (brk or ren)


def frag_key(frags, normalize):
    return (tuple((f[0], f[1], f[2], f[3], f[4] if isinstance(f[4], str) else repr(f[4])) for f in frags), normalize)


def jsonable(frags):
    return [[f[0], f[1], f[2], f[3], f[4] if (f[4] is None or isinstance(f[4], str)) else '<NotImplemented>'] for f in frags]


def run_stream(ctx, mon, frags, normalize, origin):
    import calmjs.parse.sourcemap as sm
    state = {'origin': origin}
    out = io.StringIO()
    try:
        sm.write(iter(frags), out, normalize=normalize)
    except RecursionError:
        ctx.count('skipped:resource_limit')
        return
    except Exception as e:
        # no map at all for a well-formed stream
        ctx.violation('C09:writer_raised:%s' % type(e).__name__, {'fragments': jsonable(frags), 'normalize': normalize},
                      'sourcemap.write raised %s: %s\nnormalize=%s origin=%s\nfragments: %r' % (
                          type(e).__name__, e, normalize, origin, jsonable(frags)[:25]))
        return
    nt = nontrivial(frags)
    ctx.case(frag_key(frags, normalize), nt,
             sample={'origin': origin, 'normalize': normalize, 'fragments': jsonable(frags)[:12],
                     'mappings': (mon.last[2]['mappings'] if mon.last else '')[:80]}
             if (nt and ctx.rng.random() < 0.001) else None)


def run(ctx):
    rng = ctx.rng

    def on_violation(viol, frags, normalize, smap):
        seen = set()
        for mech, detail in viol:
            if mech in seen:
                continue
            seen.add(mech)
            ctx.violation(mech, {'fragments': jsonable(frags), 'normalize': normalize},
                          '%s\nnormalize=%s mappings=%r sources=%r names=%r\nfragments: %r' % (
                              detail, normalize, smap['mappings'][:200], smap['sources'], smap['names'][:8],
                              jsonable(frags)[:25]))
    mon = smmon.SourcemapMonitor(ctx, on_violation).install()
    try:
        for i in range(ctx.per_shard(1200, 30000)):
            frags = synthetic(rng)
            for normalize in (True, False):
                run_stream(ctx, mon, frags, normalize, 'synthetic')
            if not (i & 0x7f) and ctx.time_left() < ctx.budget_s * 0.5:
                break
        from calmjs.parse.unparsers.es5 import pretty_printer, minify_printer
        makers = [('pretty', lambda: pretty_printer('  ')), ('minify', lambda: minify_printer()),
                  ('minify_obfuscate', lambda: minify_printer(obfuscate=True, obfuscate_globals=True)),
                  ('minify_drop', lambda: minify_printer(drop_semi=True, obfuscate=True))]

        def opts_fn(i, r):
            return jsgen.Opts(clean=True, string_continuations=(i % 3 == 0), allow_with=False)
        # bundle-like programs: a line thousands of columns long, a file thousands of lines long, and a short file
        # chained after either (the first token of the next file lies far *before* where the previous one ended)
        wide = ['var a = "%s", b = 1;\nvar c = a + b;\nc = [a, b];' % ('x' * 1500),
                'var t = [%s];\nt.push(1);' % ','.join('"v%d"' % k for k in range(400)),
                ''.join('a%d = %d;\n' % (k, k) for k in range(1300)) + 'done();',
                'f(%s);\ng();' % ('1,' * 2400 + '1')]
        for k, text in enumerate(wide):
            if k % ctx.nshards != ctx.shard:
                continue
            tree, err = work.run_impl(text, with_comments=False)
            tail, err = work.run_impl('var z = 1;\nz++;', with_comments=False)
            if tree is None or tail is None:
                raise HarnessBroken('wide program %d not accepted' % k)
            tree.sourcepath, tail.sourcepath = 'src/wide%d.js' % k, 'src/tail.js'
            for name, make in makers:
                pr = make()
                frags = [tuple(f) for f in pr(tree)]
                both = frags + [tuple(f) for f in pr(tail)]
                for normalize in (True, False):
                    run_stream(ctx, mon, frags, normalize, 'wide:' + name)
                    run_stream(ctx, mon, both, normalize, 'wide_chained:' + name)
                ctx.hit('wide_program')
        progs = work.Programs(ctx, ctx.per_shard(150, 3000), opts_fn=opts_fn)
        pool = []
        for i, (text, meta) in enumerate(progs):
            try:
                tree, err = work.run_impl(text, with_comments=(i % 4 == 0))
            except Exception:
                continue
            if tree is None:
                continue
            tree.sourcepath = 'src/f%d.js' % (i % 7)
            pool.append(tree)
            name, make = makers[i % len(makers)]
            try:
                frags = [tuple(f) for f in make()(tree)]
            except RecursionError:
                continue
            for normalize in (True, False):
                run_stream(ctx, mon, frags, normalize, 'printer:' + name)
            if len(pool) >= 2 + (i % 3):
                frags = []
                pr = make()
                for t in pool:
                    frags.extend(tuple(f) for f in pr(t))
                for normalize in (True, False):
                    run_stream(ctx, mon, frags, normalize, 'chained:' + name)
                pool = []
            if ctx.out_of_time():
                break
        progs.report()
        resolved_sources(ctx)
    finally:
        mon.remove()


class _Named(io.StringIO):
    def __init__(self, name):
        io.StringIO.__init__(self)
        self.name = name


def resolved_sources(ctx):
    """the map as a file among files: a decoder resolves 'sources' (and 'file') against the location of the map;
    what it arrives at has to be the file the fragments named"""
    import json
    import posixpath
    import calmjs.parse.sourcemap as sm
    from calmjs.parse.unparsers.es5 import pretty_printer, minify_printer
    layouts = [('/srv/www/dist/bundle.js', '/srv/www/dist/bundle.js.map', ['/srv/www/lib/alpha.js', '/srv/www/lib/beta.js']),
               ('/srv/www/dist/bundle.js', '/srv/www/dist/maps/bundle.js.map', ['/srv/www/lib/alpha.js', '/srv/www/dist/x/beta.js']),
               ('/srv/www/dist/js/bundle.js', '/srv/www/bundle.js.map', ['/srv/www/dist/js/alpha.js', '/srv/lib/beta.js']),
               ('/srv/out/a/b/c/bundle.js', '/srv/maps/bundle.js.map', ['/srv/maps/alpha.js', '/srv/out/a/beta.js']),
               ('/bundle.js', '/m/bundle.js.map', ['/alpha.js', '/m/n/beta.js']),
               # several spellings of one location among the sources (the indices in the mappings count entries, not files)
               ('/srv/www/dist/bundle.js', '/srv/www/dist/bundle.js.map',
                ['/srv/www/src/alpha.js', '/srv/www/lib/../src/alpha.js', '/srv/www/src/beta.js']),
               ('/srv/p/out.js', '/srv/p/maps/out.js.map', ['/srv/p/./a.js', '/srv/p/a.js', '/srv/p/x//a.js', '/srv/p/x/../a.js', '/srv/p/b.js']),
               ('/srv/p/out.js', '/srv/p/out.js.map', ['/srv/p/a.js', '/srv/p/b.js', '/srv/p/a.js', '/srv/p/c/../b.js']),
               # names that are not in a Unicode normal form (what a file system may hand out) / not ASCII
               ('/srv/www/dist/bundle.js', '/srv/www/dist/bundle.js.map', ['/srv/www/src/cafe\u0301.js', '/srv/www/src/\u1112\u1161\u11ab.js']),
               ('/srv/www/di\u0308st/bundle.js', '/srv/www/maps/bundle.js.map', ['/srv/www/src/A\u030a.js', '/srv/www/src/\u212b.js'])]
    for k, (out_name, map_name, srcs) in enumerate(layouts):
        if k % ctx.nshards != ctx.shard:
            continue
        for make in (lambda: pretty_printer('  '), lambda: minify_printer(obfuscate=True)):
            for normalize in (True, False):
                frags = []
                pr = make()
                for j, src in enumerate(srcs):
                    tree, err = work.run_impl('var v%d = function (arg, nai\u0308ve, \u212bngstrom) { return arg + %d + nai\u0308ve + \u212bngstrom; };' % (j, j))
                    tree.sourcepath = src
                    frags.extend(tuple(f) for f in pr(tree))
                out, mp = _Named(out_name), _Named(map_name)
                mappings, sources, names = sm.write(iter(frags), out, normalize=normalize)
                sm.write_sourcemap(mappings, sources, names, out, mp)
                got = json.loads(mp.getvalue())
                ctx.hit('sources_resolved')
                base = posixpath.dirname(map_name)
                arrived = [posixpath.normpath(posixpath.join(base, x)) for x in got['sources']]
                wanted = [posixpath.normpath(x) for x in sources]
                afile = posixpath.normpath(posixpath.join(base, got['file']))
                ctx.case(('resolved', out_name, map_name, normalize), True)
                from vk.ref import refsm
                try:
                    refsm.decode_mappings(got['mappings'], len(got['sources']), len(got['names']))
                except refsm.MapError as e:
                    ctx.violation('C09:written_map_undecodable_or_out_of_range',
                                  {'fragments': [], 'normalize': normalize, 'layout': [out_name, map_name, srcs]},
                                  'the map written for %s (sources %r) does not decode: %s' % (out_name, got['sources'], e))
                if got.get('names') != list(names):
                    ctx.violation('C09:written_names_differ',
                                  {'fragments': [], 'normalize': normalize, 'layout': [out_name, map_name, srcs]},
                                  'the map written for %s lists names %r, the fragments recorded %r' % (
                                      out_name, got.get('names'), list(names)))
                if arrived != wanted or afile != out_name:
                    ctx.violation('C09:source_resolves_to_other_file',
                                  {'fragments': [], 'normalize': normalize, 'layout': [out_name, map_name, srcs]},
                                  'map %s for %s: sources %r (file %r) resolve against the map to %r (%r); the fragments '
                                  'named %r' % (map_name, out_name, got['sources'], got['file'], arrived, afile, wanted))


def _from_json(frs):
    return [(f[0], f[1], f[2], f[3], NotImplemented if f[4] == '<NotImplemented>' else f[4]) for f in frs]


def replay(ctx, witness):
    def on_violation(viol, frags, normalize, smap):
        for mech, detail in viol:
            ctx.violation(mech, witness, detail)
    if witness.get('layout'):
        resolved_sources(ctx)
        return
    mon = smmon.SourcemapMonitor(ctx, on_violation).install()
    try:
        run_stream(ctx, mon, _from_json(witness['fragments']), witness.get('normalize', True), 'replay')
    finally:
        mon.remove()


def canary(ctx, spec):
    sub = type(ctx)(ctx.prop, ctx.tier, ctx.seed, 0, 1, 30)
    found = []
    mon = smmon.SourcemapMonitor(sub, lambda v, f, n, s: found.extend(v)).install()
    try:
        run_stream(sub, mon, _from_json(spec['fragments']), spec.get('normalize', True), 'canary')
    finally:
        mon.remove()
    return found[0][0] if found else None

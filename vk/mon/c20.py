"""
C20 - pretty output is indented exactly by block depth and ends with one newline.

Output-line checker: the reference parser reads the pretty output and gives
every token its structural depth (enclosing braces of blocks, function bodies,
non-empty object literals, switch blocks, plus one inside a case/default
body); each line that starts a token must begin with indent x depth and
nothing else.  Invariant hooks on the live ``Indentator`` (level never
negative, back at zero when a print call completes).
"""

import itertools
from vk.boot import HarnessBroken
from vk import work, printing, probe
from vk.gen import jsgen
from vk.ref import refjs

LEVEL = 'exploration'
RULE = ('inputs: corpus and Annex A derivations biased towards nesting (blocks, functions, object literals, switch '
        'with empty / fall-through / default-in-the-middle cases, try arms, empty constructs inside non-empty ones), '
        'parsed with and without comment capture; configurations: indent strings "", one to four spaces, TAB, " TAB"; '
        'every second program is printed by a printer object that has an abandoned and a completed walk behind it; one '
        'string per case reaches the stock ruleset through Dispatcher(indent_str=...), one through es5.pretty_print(text, '
        'indent) given by position or keyword; '
        'a case = (text, indent, comment flag); non-trivial = the output has at least one line at depth >= 1; '
        'distinct by (text, indent, flag).')
ASSUMPTIONS = ['structural depth of the output is computed from the refjs tree of the output itself; continuation lines '
               'of multi-line string / comment tokens and lines that start with a comment are exempt']
BUDGET_S = {'quick': 60, 'thorough': 700}
REQUIRED_HITS = ['pretty_print', 'used_printer', 'shape', 'deep_shape', 'lines_checked', 'Indentator.indent', 'Indentator.dedent', 'level_zero_at_end', 'indent_from_dispatcher', 'indent_to_shortcut', 'closing_run', 'tolerant_dispatcher', 'white_space_indent']
FLOOR = {'quick': 1500, 'thorough': 20000}

INDENTS = ['  ', '\t', '', ' ', '   ', '    ', ' \t']
LT = '\n\r\u2028\u2029'


def token_depths(res):
    """depth of every token of a refjs Result"""
    depth = [0] * len(res.tokens)

    def span(first, last, d):
        for i in range(first, last + 1):
            depth[i] += d

    def walk(n):
        if isinstance(n, list):
            for x in n:
                walk(x)
            return
        if not isinstance(n, refjs.R):
            return
        k = n.kind
        if k in ('Block', 'CaseBlock'):
            span(n.first + 1, n.last - 1, 1)
        elif k in ('FuncDecl', 'FuncExpr', 'GetPropAssign', 'SetPropAssign'):
            # body braces: the '{' is the first '{' after the parameter list
            i = n.first
            pd = 0
            while i <= n.last:
                v = res.tokens[i].value
                if v == '(':
                    pd += 1
                elif v == ')':
                    pd -= 1
                elif v == '{' and pd == 0 and res.tokens[i].kind == 'punct':
                    break
                i += 1
            span(i + 1, n.last - 1, 1)
        elif k == 'Object':
            if n.attrs['properties']:
                span(n.first + 1, n.last - 1, 1)
        elif k in ('Case', 'Default'):
            els = n.attrs['elements']
            if els:
                span(els[0].first, n.last, 1)
        for v in n.attrs.values():
            walk(v)
    walk(res.tree)
    return depth


# ES5 white space (7.2): an indentation string may consist of any of these
_WS = '\t\x0b\x0c \xa0\ufeff\u1680\u2000\u2001\u2002\u2003\u2004\u2005\u2006\u2007\u2008\u2009\u200a\u202f\u205f\u3000'


def audit(output, indent, res):
    """the oracle over one output text; returns list of (mech, detail), stats"""
    out = []
    stats = {'lines': 0, 'max_depth': 0, 'deep_lines': 0, 'comment_lines': 0}
    if output:
        if not output.endswith('\n'):
            out.append(('C20:no_final_newline', 'non-empty output does not end with a newline: %r' % output[-20:]))
        elif output.endswith('\n\n') or output.endswith('\r\n\n'):
            out.append(('C20:several_final_newlines', 'output ends with more than one newline: %r' % output[-20:]))
    if res is None:
        return out, stats
    depth = token_depths(res)
    table = res.lines
    comment_starts = set(c.start for c in res.comments)
    seen_lines = set()
    for i, t in enumerate(res.tokens):
        line = table.line(t.start)
        if line in seen_lines:
            continue
        seen_lines.add(line)
        ls = table.starts[line - 1]
        lead = output[ls:t.start]
        if lead.strip(_WS) != '':
            # something precedes the token on its line: a comment or the tail of a multi-line token
            stats['comment_lines'] += 1
            continue
        # the line may be the continuation of a multi-line token that ended on it
        if i > 0 and res.tokens[i - 1].end > ls:
            continue
        if any(c.start < ls < c.end for c in res.comments):
            continue
        stats['lines'] += 1
        d = depth[i]
        stats['max_depth'] = max(stats['max_depth'], d)
        if d >= 1:
            stats['deep_lines'] += 1
        want = indent * d
        if lead != want:
            out.append(('C20:wrong_indentation',
                        'line %d starts token %r at depth %d: leading white space is %r, expected %r' % (
                            line, t.value[:20], d, lead, want)))
            break
    return out, stats


def selfcheck(ctx):
    good = 'if (a) {\n  b;\n  switch (c) {\n    case 1:\n      d;\n  }\n}\nx = {\n  k: 1\n};\n'
    bad1 = good.replace('      d;', '    d;')
    bad2 = good.replace('\n  b;', '\n   b;')
    bad3 = good[:-1]
    bad4 = good + '\n'
    r = lambda s: refjs.parse(s)
    planted = [audit(bad1, '  ', r(bad1))[0], audit(bad2, '  ', r(bad2))[0], audit(bad3, '  ', r(bad3))[0],
               audit(bad4, '  ', r(bad4))[0], audit(good, '\t', r(good))[0]]
    if not all(planted) or audit(good, '  ', r(good))[0]:
        raise HarnessBroken('C20 oracle failed on planted observations %r' % (planted,))
    return len(planted) + 1


class Levels(object):
    """invariant hooks on the live Indentator objects"""

    def __init__(self, ctx):
        self.ctx = ctx
        self.live = []
        self.problems = []

    def install(self):
        from calmjs.parse.handlers.indentation import Indentator
        ctx = self.ctx
        me = self

        def after_init(snap, result, args, kwargs):
            me.live.append(args[0])

        def after_indent(snap, result, args, kwargs):
            ctx.hit('Indentator.indent')

        def after_dedent(snap, result, args, kwargs):
            ctx.hit('Indentator.dedent')
            if args[0]._level < 0:
                me.problems.append('indentation level became %d' % args[0]._level)
        self.recs = [probe.wrap(Indentator, '__init__', after=after_init),
                     probe.wrap(Indentator, 'layout_handler_indent', after=after_indent),
                     probe.wrap(Indentator, 'layout_handler_dedent', after=after_dedent)]
        return self

    def remove(self):
        for r in self.recs:
            r.remove()

    def begin(self):
        self.live = []
        self.problems = []

    def end(self):
        """called when a print call has completed"""
        out = list(self.problems)
        for ind in self.live:
            self.ctx.hit('level_zero_at_end')
            if ind._level != 0:
                out.append('indentation level is %d, not 0, at the end of the text' % ind._level)
        return out


from vk.printing import used_printer


def dispatcher_printer(indent):
    import functools
    from calmjs.parse import rules
    from calmjs.parse.unparsers.base import BaseUnparser
    from calmjs.parse.unparsers.es5 import definitions
    from calmjs.parse.unparsers.walker import Dispatcher
    return BaseUnparser(definitions, rules=(rules.indent(),),
                        dispatcher_cls=functools.partial(Dispatcher, indent_str=indent))


def check(ctx, levels, text, indents, with_comments, origin, history=False, force_dispatcher=False):
    from calmjs.parse.unparsers.es5 import pretty_print
    p = printing.prepare(ctx, text, with_comments)
    if p is None:
        ctx.case((text, 'skipped'), False)
        return
    for k, indent in enumerate(indents):
        used = history and k == 0
        printer = used_printer(indent) if used else None
        # the indentation string is also a Dispatcher setting, which the stock ruleset rules.indent() documents
        # it defers to: the last string of every case is supplied that way
        via_dispatcher = not used and (force_dispatcher is True or (k == len(indents) - 1 and k > 0))
        # ... and an argument of the text-to-text shortcut calmjs.parse.es5.pretty_print, given by position or
        # by keyword: the second string of a case with three or more
        via_shortcut = not used and not via_dispatcher and (force_dispatcher == 'shortcut' or
                                                            (k == 1 and len(indents) >= 3))
        levels.begin()
        try:
            if used:
                # the statement is about every pretty-printed output, also that of a printer object used before
                out = ''.join(chunk.text for chunk in printer(p.tree))
                ctx.hit('used_printer')
            elif via_dispatcher:
                out = ''.join(chunk.text for chunk in dispatcher_printer(indent)(p.tree))
                ctx.hit('indent_from_dispatcher')
            elif via_shortcut:
                from calmjs.parse import es5
                kw = {'with_comments': True} if with_comments else {}
                if len(text) & 1:
                    out = es5.pretty_print(text, indent, **kw)
                else:
                    out = es5.pretty_print(text, indent_str=indent, **kw)
                ctx.hit('indent_to_shortcut')
            else:
                out = pretty_print(p.tree, indent_str=indent)
        except RecursionError:
            ctx.count('skipped:resource_limit')
            continue
        except Exception as e:
            ctx.count('printer_raised:%s' % type(e).__name__)      # C01's to report: there is no output to judge
            levels.end()
            continue
        ctx.hit('pretty_print')
        hook_problems = levels.end()
        try:
            res = refjs.parse(out)
        except (refjs.RefSyntaxError, RecursionError):
            res = None
            ctx.count('output_not_readable_by_reference')   # C01 / C13 report that
        viol, stats = audit(out, indent, res)
        for hp in hook_problems:
            viol.append(('C20:indentator_level', hp))
        ctx.hit('lines_checked', stats['lines'])
        ctx.count('depth_max_%d' % min(stats['max_depth'], 9))
        ctx.count('lines_starting_with_comment_or_continuation', stats['comment_lines'])
        nontrivial = stats['deep_lines'] >= 1
        ctx.case((text, indent, with_comments), nontrivial,
                 sample={'origin': origin, 'indent': indent, 'with_comments': with_comments, 'output': out[:200]}
                 if (nontrivial and ctx.rng.random() < 0.002) else None)
        seen = set()
        for mech, detail in viol:
            if mech in seen:
                continue
            seen.add(mech)
            ctx.violation(mech, {'text': text, 'indent': indent, 'with_comments': with_comments, 'history': used,
                           'via_dispatcher': 'shortcut' if via_shortcut else via_dispatcher},
                          '%s\nindent %r, comment capture %s\ninput: %r\noutput: %r' % (
                              detail, indent, with_comments, text[:200], out[:300]))
        if viol:
            break


# small structural shapes, in particular programs that open several blocks before their first token
SHAPES = ['{{}}', ';{{}}', '{{};}', '{{}a;}', '{{{}}{}}', '{;{;}}', '{{}{}}', '{{{}}}', 'switch(a){}', 'switch(a){case 1:}',
          'switch(a){case 1:{}}', 'switch(a){default:case 1:;}', '{switch(a){case 1:{{}}}}', 'switch(a){case 1:case 2:}',
          'if(a){}else{}', 'if(a){{}}else{{}}', 'x={}', 'x={a:{}}', 'x={a:{b:{}}}', 'x=[{},{a:{}}]', '({})', '({a:{}})',
          'function f(){}', 'function f(){{}}', 'x=function(){}', '(function(){{}})', 'try{}catch(e){}finally{}',
          'try{{}}catch(e){{}}finally{{}}', 'do{}while(a)', 'do{{}}while(a)', 'for(;;){}', 'for(;;){{}}', 'for(a in b){{}}',
          'a:{}', 'a:{{}}', 'with(a){}', 'with(a){{}}', 'x={get a(){}, set a(v){{}}}', '{/*c*/}', '{{/*c*/}}', '{//c\n}',
          '{{//c\n}}', '/*c*/{{}}', '{{}}//c', '{{}}\n{{}}', 'while(a){}', 'while(a){{}}', 'if(a){}', 'if(a){{}}', '']


GRAFT_TEXTS = ['function f(a) { switch (a) { case 1: x(); break; case 2: y(); default: z(); } return a; } f(1);',
               'function g() { var o = {a: 1, b: {c: 2, d: 3}, e: 4}; return o; } g();',
               '{ a; { b; c; } d; } e;', 'if (a) { b; } else { c; d; } try { e; f; } catch (x) { g; } finally { h; } i;',
               'x = function () { return [ { k: 1 }, 2 ]; }; while (a) { b; c; } y;']


def grafted(ctx, levels, text, indent, which=None):
    """pretty printing through the documented extension point: a Dispatcher whose error_handler reports and carries on
    (here: renders a comment), applied to a tree in which one member of a statement / property / item list has been replaced
    by a node of a kind the definitions do not know.  Yields (graft index, problems)."""
    from calmjs.parse import rules
    from calmjs.parse.asttypes import Node
    from calmjs.parse.parsers.es5 import parse
    from calmjs.parse.ruletypes import StreamFragment
    from calmjs.parse.unparsers.base import BaseUnparser
    from calmjs.parse.unparsers.es5 import definitions
    from calmjs.parse.unparsers.walker import Dispatcher
    from vk import tree as vtree

    class Extension(Node):
        pass

    class Tolerant(Dispatcher):
        @staticmethod
        def error_handler(exception, rule=None, node=None):
            return StreamFragment('/* unsupported */', None, None, None, None)

    n = 0
    while True:
        tree = parse(text)
        slots = [(node, k, i) for _, node in vtree.reflect_walk(tree) for k, v in sorted(vars(node).items())
                 if isinstance(v, list) and not k.startswith('_') for i, x in enumerate(v) if isinstance(x, Node)]
        if n >= len(slots):
            return
        if which is None or which == n:
            node, k, i = slots[n]
            getattr(node, k)[i] = Extension()
            levels.begin()
            try:
                out = ''.join(c.text for c in BaseUnparser(definitions, rules=(rules.indent(indent_str=indent),),
                                                          dispatcher_cls=Tolerant)(tree))
            except RecursionError:
                n += 1
                continue
            problems = [('C20:indentator_level', hp) for hp in levels.end()]
            try:
                res = refjs.parse(out)
            except (refjs.RefSyntaxError, RecursionError):
                res = None
                ctx.count('grafted_output_not_readable_by_reference')
            viol, stats = audit(out, indent, res)
            if out.rstrip('\n') != out.rstrip():
                viol.append(('C20:trailing_white_space_at_end', 'the text ends with %r' % out[-12:]))
            ctx.hit('tolerant_dispatcher')
            yield n, out, problems + viol
        n += 1


def deep_shapes():
    """nesting well beyond what programs written by hand reach (the printers recurse: depth 150 is far
    from the interpreter's limit, see DESIGN 2.7)"""
    out = []
    for n in (40, 66, 90):
        out.append('{' * n + 'a;' + '}' * n)
        out.append('function f(){' * n + 'return 1;' + '}' * n)
        out.append('x = ' + '{a:' * n + '1' + '}' * n + ';')
        out.append('switch(a){case 1:' * (n // 2) + 'b;' + '}' * (n // 2))
        out.append('if (a) {' * n + 'b;' + '} else { c; }' * n)
        out.append(''.join('try {' if i % 2 else 'while (a) {' for i in range(n)) + 'x;' +
                   ''.join('}' if i % 2 == 0 else '} finally {}' for i in reversed(range(n))))
    return out


def run(ctx):
    levels = Levels(ctx).install()
    try:
        for k, text in enumerate(deep_shapes()):
            if k % ctx.nshards != ctx.shard:
                continue
            try:
                check(ctx, levels, text, ['  ', '\t'], False, 'deep_shape', history=False)
            except RecursionError:
                ctx.count('skipped:resource_limit')       # the harness's own recursive helpers
            ctx.hit('deep_shape')
        for k, text in enumerate(SHAPES):
            if k % ctx.nshards != ctx.shard:
                continue
            for wc in (False, True):
                check(ctx, levels, text, INDENTS, wc, 'shape', history=False)
                check(ctx, levels, text, INDENTS[:2], wc, 'shape', history=True)
            ctx.hit('shape')
        # every ES5 white-space character as the indentation string
        wtexts = ['function f() { if (a) { /re/.test(b); } else { switch (c) { case 1: d; default: { e } } } return { k: [1, { m: 2 }] }; }',
                  'try { a } catch (e) { b } finally { do { c } while (d) } x = function () { return function () { y } };',
                  '{ { { a; } } } for (;;) { with (o) { l: { break l; } } }']
        for k, (w, text) in enumerate(itertools.product(_WS, wtexts)):
            if k % ctx.nshards == ctx.shard:
                check(ctx, levels, text, [w, ' ' + w, w + '\t'], False, 'white_space_indent', force_dispatcher=(False, True, 'shortcut')[k % 3])
                ctx.hit('white_space_indent')
        for k, text in enumerate(GRAFT_TEXTS):
            for j, indent in enumerate(INDENTS[:3]):
                if (k * 3 + j) % ctx.nshards != ctx.shard:
                    continue
                for n, out, viol in grafted(ctx, levels, text, indent):
                    ctx.case(('graft', text, indent, n), True)
                    for mech, detail in viol[:1]:
                        ctx.violation(mech + ':tolerant_dispatcher', {'graft_text': text, 'indent': indent, 'graft': n},
                                      '%s\nBaseUnparser with a Dispatcher whose error_handler carries on; member %d of the lists of the '
                                      'tree replaced by a node without definition\ninput: %r\noutput: %r' % (detail, n, text, out[:400]))
        # several constructs closing at once, then more layout (the printer sees one long run of layout rules)
        from vk.gen import products
        for k, (key, text) in enumerate(products.closing_runs()):
            if k % ctx.nshards != ctx.shard or (ctx.tier == 'quick' and (k // ctx.nshards) % 2):
                continue
            check(ctx, levels, text, [INDENTS[k % len(INDENTS)], INDENTS[(k + 1) % len(INDENTS)]], False, 'closing_run')
            ctx.hit('closing_run')

        def opts_fn(i, r):
            return jsgen.Opts(clean=(i % 2 == 0), max_depth=6 + (i % 3), max_stmts=4, unicode_idents=(i % 5 == 1), string_continuations=(i % 3 == 0))
        progs = work.Programs(ctx, ctx.per_shard(300, 7000), opts_fn=opts_fn,
                              layouts=('space', 'random_comments', 'lines', 'tight'))
        for i, (text, meta) in enumerate(progs):
            if ctx.tier == 'thorough':
                ind = INDENTS
            else:
                ind = [INDENTS[i % len(INDENTS)], INDENTS[(i + 3) % len(INDENTS)], '']
            check(ctx, levels, text, ind, False, meta['origin'], history=bool(i & 1))
            if meta['layout'] == 'random_comments' or meta['origin'] == 'corpus':
                check(ctx, levels, text, ind[:2], True, meta['origin'])
            if ctx.out_of_time():
                break
        progs.report()
    finally:
        levels.remove()


def replay(ctx, witness):
    levels = Levels(ctx).install()
    try:
        if witness.get('graft_text') is not None:
            for n, out, viol in grafted(ctx, levels, witness['graft_text'], witness.get('indent', '  '), which=witness.get('graft')):
                for mech, detail in viol[:1]:
                    ctx.violation(mech + ':tolerant_dispatcher', witness, '%s\noutput: %r' % (detail, out[:400]))
            return
        check(ctx, levels, witness['text'], [witness.get('indent', '  ')], bool(witness.get('with_comments')), 'replay',
              history=bool(witness.get('history')), force_dispatcher=witness.get('via_dispatcher') or False)
    finally:
        levels.remove()


def canary(ctx, spec):
    sub = type(ctx)(ctx.prop, ctx.tier, ctx.seed, 0, 1, 30)
    sub._suppressed = set()
    levels = Levels(sub).install()
    try:
        check(sub, levels, spec['text'], [spec.get('indent', '  ')], bool(spec.get('with_comments')), 'canary')
    finally:
        levels.remove()
    return next(iter(sub.viol_count), None)

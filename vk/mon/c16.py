"""
C16 - tree walking reaches every node exactly once, parent first, stably.

Reflective structural oracle: the multiset of node identities yielded by the
real ``Walker().walk`` is compared with the set found by reflection over every
attribute (``vars(node)``, lists included) of every node; order, ``filter`` and
``extract`` are checked against walk-then-select.
"""

from collections import Counter

from vk.boot import HarnessBroken
from vk import work
from vk.gen import jsgen
from vk import tree as vtree

LEVEL = 'exploration'
RULE = ('trees: corpus and Annex A derivations (every generator alternative forced round-robin, so every node kind '
        'with optional parts present and absent), parsed without and with comment capture; walk / filter / extract alone '
        'and with several traversals of one Walker alive at once; a case = (text, capture '
        'flag); non-trivial = at least 5 nodes; distinct by (text, flag).')
ASSUMPTIONS = ['the reflective traversal (vars(node), lists included, _token_map excluded) defines "every node stored in '
               'any attribute"; the root itself is not yielded (documented: children only)']
BUDGET_S = {'quick': 50, 'thorough': 600}
REQUIRED_HITS = ['walk', 'filter', 'extract', 'extract_no_match', 'interleaved_traversals', 'edit_of_another_tree']
FLOOR = {'quick': 1500, 'thorough': 20000}


def reflect(tree):
    """(ordered list of nodes below the root, parent map id(child)->id(parent))"""
    nodes = []
    parent = {}
    stack = [(tree, None)]
    seen = set()
    order = []
    for path, n in vtree.reflect_walk(tree):
        order.append(n)
    # parent map
    for n in order:
        for k, c in vtree.reflect_children(n):
            parent.setdefault(id(c), id(n))
    return order[1:], parent


def audit(tree, walked, walked2, label):
    """the oracle over one observed walk"""
    out = []
    expected, parent = reflect(tree)
    exp_ids = Counter(id(n) for n in expected)
    got_ids = Counter(id(n) for n in walked)
    if got_ids != exp_ids:
        missing = [n for n in expected if got_ids.get(id(n), 0) < exp_ids[id(n)]]
        extra = [n for n in walked if got_ids[id(n)] > exp_ids.get(id(n), 0)]
        if missing:
            k = vtree.kind_of(missing[0])
            by = {id(n): n for n in [tree] + expected}
            pk = vtree.kind_of(by[parent[id(missing[0])]]) if id(missing[0]) in parent else '?'
            out.append(('C16:node_not_reached:%s_in_%s' % (k, pk),
                        '%d node(s) stored in attributes are never yielded by walk(); first: %s stored in a %s (%s)' % (
                            len(missing), k, pk, label)))
        if extra:
            out.append(('C16:node_yielded_twice_or_foreign:%s' % vtree.kind_of(extra[0]),
                        '%d node(s) yielded more often than they are stored; first: %s (%s)' % (
                            len(extra), vtree.kind_of(extra[0]), label)))
    index = {}
    for i, n in enumerate(walked):
        index.setdefault(id(n), i)
    for n in walked:
        p = parent.get(id(n))
        if p is not None and p != id(tree) and p in index and index[p] > index[id(n)]:
            out.append(('C16:child_before_parent:%s' % vtree.kind_of(n),
                        '%s yielded before its parent (%s)' % (vtree.kind_of(n), label)))
            break
    if [id(n) for n in walked] != [id(n) for n in walked2]:
        out.append(('C16:unstable_order', 'two walks of the same tree differ (%s)' % label))
    return out


def selfcheck(ctx):
    class N(object):
        def __init__(self, **kw):
            self.__dict__.update(kw)

        def children(self):
            return []

        def getpos(self):
            pass
    c1, c2 = N(value='a'), N(value='b')
    mid = N(left=c1, right=c2)
    root = N(items=[mid], extra=None)
    good = audit(root, [mid, c1, c2], [mid, c1, c2], 'x')
    planted = [audit(root, [mid, c1], [mid, c1], 'x'),               # c2 hidden
               audit(root, [mid, c1, c2, c2], [mid, c1, c2, c2], 'x'),   # twice
               audit(root, [c1, mid, c2], [c1, mid, c2], 'x'),       # child before parent
               audit(root, [mid, c1, c2], [mid, c2, c1], 'x')]       # unstable
    if good or not all(planted):
        raise HarnessBroken('C16 oracle failed on planted observations %r %r' % (good, planted))
    return len(planted) + 1


def predicates(rng, kinds):
    k1 = rng.choice(sorted(kinds)) if kinds else 'Identifier'
    return [
        ('kind=' + k1, lambda n, k=k1: vtree.kind_of(n) == k),
        ('true', lambda n: True),
        ('false', lambda n: False),
        ('odd_lexpos', lambda n: isinstance(getattr(n, 'lexpos', None), int) and n.lexpos % 2 == 1),
        ('has_value', lambda n: hasattr(n, 'value')),
    ]


def check(ctx, text, with_comments, origin):
    from calmjs.parse.walkers import Walker
    try:
        tree, err = work.run_impl(text, with_comments)
    except Exception:
        ctx.count('skipped:crash')
        return
    if tree is None:
        ctx.count('skipped:rejected')
        ctx.case((text, with_comments), False)
        return
    label = '%s, comment capture %s' % (origin, 'on' if with_comments else 'off')
    w = Walker()
    walked = list(w.walk(tree))
    walked2 = list(w.walk(tree))
    ctx.hit('walk')
    nn = len(walked)
    kinds = set(vtree.kind_of(n) for n in walked)
    for k in kinds:
        ctx.extra.setdefault('node_kinds_walked__set', set()).add(k)
    ctx.case((text, with_comments), nn >= 5,
             sample={'origin': origin, 'with_comments': with_comments, 'text': text[:140], 'nodes_walked': nn}
             if (nn >= 5 and ctx.rng.random() < 0.002) else None)
    viol = audit(tree, walked, walked2, label)
    # every public way of walking gives the same sequence: the module-level walk(), and Walker.walk with
    # its optional second argument (documented as ignored) given
    from calmjs.parse import walkers
    ids = [id(n) for n in walked]
    alt = [('walkers.walk(tree)', lambda: walkers.walk(tree)),
           ('Walker().walk(tree, <constant false>)', lambda: w.walk(tree, lambda n: False)),
           ('Walker().walk(tree, condition=<is Identifier>)',
            lambda: w.walk(tree, condition=lambda n: vtree.kind_of(n) == 'Identifier'))]
    for name, call in alt:
        try:
            got = [id(n) for n in call()]
        except Exception as e:
            got = 'raised %s: %s' % (type(e).__name__, e)
        ctx.hit('walk_variants')
        if got != ids:
            viol.append(('C16:walk_variant_differs', '%s yielded %s, Walker().walk(tree) %d nodes (%s)' % (
                name, ('%d nodes' % len(got)) if isinstance(got, list) else got, len(ids), label)))
    for name, pred in predicates(ctx.rng, kinds):
        f = list(w.filter(tree, pred))
        ctx.hit('filter')
        exp = [n for n in walked if pred(n)]
        if [id(n) for n in f] != [id(n) for n in exp]:
            viol.append(('C16:filter_differs_from_walk_select',
                         'filter(%s) yielded %d nodes, walk-then-select %d (%s)' % (name, len(f), len(exp), label)))
        for skip in (0, 1, len(exp) - 1, len(exp), len(exp) + 1, len(exp) + 3, -1, -len(exp) if exp else -2):
            if skip < 0:
                # there is no (-n)-th match in a count from zero: reported like any other missing one
                try:
                    got = w.extract(tree, pred, skip=skip)
                    viol.append(('C16:extract_returned_without_match', 'extract(%s, skip=%d) returned a node; counting '
                                 'from zero there is no such match (%d nodes match) (%s)' % (name, skip, len(exp), label)))
                except TypeError:
                    ctx.hit('extract_no_match')
                except Exception as e:
                    viol.append(('C16:extract_raised_%s' % type(e).__name__, 'extract(%s, skip=%d) raised %s: %s (%s)' % (
                        name, skip, type(e).__name__, e, label)))
                continue
            try:
                got = w.extract(tree, pred, skip=skip)
                ctx.hit('extract')
                if skip >= len(exp):
                    viol.append(('C16:extract_returned_without_match',
                                 'extract(%s, skip=%d) returned a node though only %d match (%s)' % (
                                     name, skip, len(exp), label)))
                elif got is not exp[skip]:
                    viol.append(('C16:extract_wrong_node',
                                 'extract(%s, skip=%d) is not the n-th match (%s)' % (name, skip, label)))
            except TypeError:
                ctx.hit('extract_no_match')
                if skip < len(exp):
                    viol.append(('C16:extract_reports_no_match',
                                 'extract(%s, skip=%d) raised TypeError though %d nodes match (%s)' % (
                                     name, skip, len(exp), label)))
            except Exception as e:
                # "no such match" is reported with TypeError; anything else (a StopIteration leaking out of the
                # skipping loop ends a caller's own generator silently) is not a report
                viol.append(('C16:extract_raised_%s' % type(e).__name__,
                             'extract(%s, skip=%d) with %d matching nodes raised %s: %s (%s)' % (
                                 name, skip, len(exp), type(e).__name__, e, label)))
    # traversals are generators: several can be alive on one Walker at the same time (the usual nested use:
    # for f in w.filter(tree, is_function): w.extract(f, is_return)), each must stay what it would be alone
    preds = predicates(ctx.rng, kinds)
    for k in range(min(3, len(preds) - 1)):
        (n1, p1), (n2, p2) = preds[k], preds[-1 - k]
        e1, e2 = [id(n) for n in walked if p1(n)], [id(n) for n in walked if p2(n)]
        try:
            g1 = w.filter(tree, p1)
            g2 = w.filter(tree, p2)
            g3 = w.walk(tree)
            got1, got2, got3 = [], [], []
            alive = [(g1, got1), (g2, got2), (g3, got3)]
            step = 0
            while alive:
                g, got = alive[step % len(alive)]
                step += 1
                try:
                    got.append(id(next(g)))
                except StopIteration:
                    alive.remove((g, got))
                if step == 2:
                    try:
                        w.extract(tree, p2)
                    except TypeError:
                        pass
            ctx.hit('interleaved_traversals')
        except Exception as e:
            viol.append(('C16:interleaved_traversal_raised', 'filter(%s) / filter(%s) / walk advanced alternately on one '
                         'Walker raised %s: %s (%s)' % (n1, n2, type(e).__name__, e, label)))
            continue
        if got1 != e1 or got2 != e2 or got3 != ids:
            viol.append(('C16:interleaved_traversals_differ',
                         'filter(%s), filter(%s) and walk advanced alternately on one Walker yielded %d / %d / %d nodes, '
                         'each alone %d / %d / %d (%s)' % (n1, n2, len(got1), len(got2), len(got3), len(e1), len(e2),
                                                          len(ids), label)))
    # a caller editing *another* tree (appending a statement to every child list it can get hold of there, as
    # an AST transformation would) leaves this one as it was: its walk is still the walk of its own nodes
    if not viol and (len(text) + nn) % 5 == 0:
        try:
            other, _ = work.run_impl('{} a; function f() {} for (;;) {}', with_comments)
            extra, _ = work.run_impl('marker;', with_comments)
            stmt = list(extra)[0]
            edited = []
            for n in list(Walker().walk(other)) + [other]:
                ch = n.children()
                if isinstance(ch, list):
                    ch.append(stmt)
                    edited.append(ch)
            ctx.hit('edit_of_another_tree')
            try:
                again = list(w.walk(tree))
            finally:
                # (the edit is taken back, so that whatever it reached does not leak into the next case)
                for ch in edited:
                    while any(x is stmt for x in ch):
                        del ch[[x is stmt for x in ch].index(True)]
            if [id(n) for n in again] != ids:
                viol.append(('C16:walk_changed_by_edit_of_another_tree',
                             'after statements were appended to the child lists of a different tree, the walk of this '
                             '(untouched) tree yields %d nodes, before %d (%s)' % (len(again), len(ids), label)))
            else:
                viol.extend(audit(tree, again, again, label + ', after an edit of another tree'))
        except RecursionError:
            viol.append(('C16:walk_changed_by_edit_of_another_tree',
                         'after an edit of a different tree the walk of this one does not terminate (%s)' % label))
    seen = set()
    for mech, detail in viol:
        if mech in seen:
            continue
        seen.add(mech)
        ctx.violation(mech, {'text': text, 'with_comments': with_comments}, '%s\ninput: %r' % (detail, text[:200]))


def run(ctx):
    def opts_fn(i, r):
        return jsgen.Opts(clean=(i % 2 == 0), unicode_idents=(i % 6 == 0), string_continuations=(i % 4 == 0))
    progs = work.Programs(ctx, ctx.per_shard(350, 8000), opts_fn=opts_fn,
                          layouts=('space', 'random_comments', 'lines', 'random_comments'))
    for text, meta in progs:
        if work.skip_known(ctx, text, None):
            continue
        check(ctx, text, False, meta['origin'])
        check(ctx, text, True, meta['origin'])
        if ctx.out_of_time():
            break
    if 'node_kinds_walked__set' in ctx.extra:
        ctx.extra['node_kinds_walked__set'] = sorted(ctx.extra['node_kinds_walked__set'])
    progs.report()


def replay(ctx, witness):
    check(ctx, witness['text'], bool(witness.get('with_comments')), 'replay')


def canary(ctx, spec):
    sub = type(ctx)(ctx.prop, ctx.tier, ctx.seed, 0, 1, 30)
    check(sub, spec['text'], bool(spec.get('with_comments')), 'canary')
    return next(iter(sub.viol_count), None)

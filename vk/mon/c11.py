"""
C11 - every AST node position is self-consistent and lies on its own token.

Reflective tree monitor (own traversal over vars(node)) run after every
accepted parse: offset / line / column of each node must agree under ES5 line
counting and point at the node's first token or its operator token (extents
come from the parallel refjs tree); every ``_token_map`` entry must be a place
where exactly that text occurs.
"""

from vk.boot import HarnessBroken
from vk import work, probe
from vk.gen import jsgen
from vk.ref import refjs
from vk import tree as vtree
from vk.ddmin import minimise_text

LEVEL = 'exploration'
RULE = ('programs: corpus + Annex A derivations rendered in 5 layouts (multi-line tokens, mixed line terminators, '
        'comments before tokens), 22 texts without any token; a case = one accepted text on which the real tree equals the reference tree; '
        'non-trivial = the tree has at least 5 nodes; distinct by text.')
ASSUMPTIONS = ['refjs token extents (first token, operator token) for the same tree shape; cases where the two trees '
               'differ are skipped and counted (that is C03\'s to report)',
               'placeholders for omitted for(;;) clauses and zero-token nodes are exempt, as the property states; '
               'token-map entries of semicolons the lexer synthesised (observed through the C04 hook) are exempt']
BUDGET_S = {'quick': 60, 'thorough': 700}
REQUIRED_HITS = ['tokenless_node', 'comment_node_position', 'nodes_checked', 'token_map_entries_checked', 'operator_position', 'first_token_position']
FLOOR = {'quick': 1500, 'thorough': 12000}


def pairs(node, r, path='$'):
    """parallel pre-order walk of an implementation node and its refjs twin"""
    yield path, node, r
    ra = r.attrs
    for k, v in vtree.public_attrs(node):
        if k == 'comments':
            continue
        rv = ra.get(k)
        if vtree._is_node(v) and isinstance(rv, refjs.R):
            for x in pairs(v, rv, path + '.' + k):
                yield x
        elif isinstance(v, list) and isinstance(rv, list):
            for i, (a, b) in enumerate(zip(v, rv)):
                if vtree._is_node(a) and isinstance(b, refjs.R):
                    for x in pairs(a, b, '%s.%s[%d]' % (path, k, i)):
                        yield x


def audit(text, tree, res, synthetic_positions):
    """the oracle: returns a list of (mechanism, detail)"""
    out = []
    table = res.lines
    toks = res.tokens
    stats = {'nodes': 0, 'first': 0, 'op': 0, 'entries': 0, 'placeholders': 0}
    for path, node, r in pairs(tree, res.tree):
        kind = vtree.kind_of(node)
        stats['nodes'] += 1
        pos, line, col = node.lexpos, node.lineno, node.colno
        if r.first > r.last or r.first < 0:
            # zero-token node (the program of a text without tokens): no own token to lie on, but its offset,
            # line and column still have to agree with one another
            stats['tokenless'] = stats.get('tokenless', 0) + 1
            if isinstance(pos, int) and pos >= 0 and table.linecol(pos) != (line, col):
                out.append(('C11:line_column_disagree:tokenless_%s' % kind,
                            '%s at %s (no tokens): lexpos %d is %s:%s by ES5 line counting, node says %s:%s' % (
                                (kind, path, pos) + table.linecol(pos) + (line, col))))
            continue
        first_tok = toks[r.first]
        placeholder = (kind == 'EmptyStatement' and path.split('.')[-1] in ('init', 'cond')
                       and text[first_tok.start:first_tok.end] == ';' and pos != first_tok.start)
        if pos is None or line is None or col is None:
            out.append(('C11:missing_position:%s' % kind, '%s at %s has no position' % (kind, path)))
            continue
        if placeholder:
            stats['placeholders'] += 1
            # exempt from lying on an own token, not from self-consistency
            if isinstance(pos, int) and 0 <= pos <= len(text) and table.linecol(pos) != (line, col):
                out.append(('C11:line_column_disagree:placeholder',
                            'for-clause placeholder at %s: lexpos %d is %s:%s by ES5 line counting, node says %s:%s' % (
                                (path, pos) + table.linecol(pos) + (line, col))))
        else:
            allowed = {first_tok.start: 'first'}
            if r.optok is not None:
                allowed[toks[r.optok].start] = 'op'
            which = allowed.get(pos)
            if which is None:
                out.append(('C11:not_on_own_token:%s' % kind,
                            '%s at %s has lexpos %r; its first token starts at %d%s (source there: %r)' % (
                                kind, path, pos, first_tok.start,
                                '' if r.optok is None else ', its operator at %d' % toks[r.optok].start,
                                text[pos:pos + 10] if isinstance(pos, int) else None)))
            else:
                stats[which] += 1
            if 0 <= pos <= len(text) and table.linecol(pos) != (line, col):
                out.append(('C11:line_column_disagree:%s' % kind,
                            '%s at %s: lexpos %d is %s:%s by ES5 line counting, node says %s:%s' % (
                                (kind, path, pos) + table.linecol(pos) + (line, col))))
        tm = getattr(node, '_token_map', None)
        if isinstance(tm, dict):
            for tk, entries in tm.items():
                for e in entries:
                    epos, eline, ecol = e
                    stats['entries'] += 1
                    probe_text = tk[:1] if (kind == 'Elision' and set(tk) == {','}) else tk
                    if not isinstance(epos, int) or not text.startswith(probe_text, epos):
                        if tk == ';' and (epos in synthetic_positions or (epos, eline, ecol) == (0, 0, 0)):
                            continue      # a semicolon the lexer supplied: not present in the source
                        out.append(('C11:token_map_text:%s' % kind,
                                    '%s at %s records %r at offset %r but the source there is %r' % (
                                        kind, path, tk[:20], epos, text[epos:epos + 10] if isinstance(epos, int) else None)))
                        continue
                    if table.linecol(epos) != (eline, ecol):
                        if tk == ';' and epos in synthetic_positions:
                            continue
                        out.append(('C11:token_map_line_column:%s' % kind,
                                    '%s at %s records %r at offset %d as %s:%s, ES5 counting gives %s:%s' % (
                                        (kind, path, tk[:20], epos, eline, ecol) + table.linecol(epos))))
    return out, stats


def selfcheck(ctx):
    class FakeNode(object):
        comments = None

        def __init__(self, **kw):
            self.__dict__.update(kw)

        def children(self):
            return []

        def getpos(self, *a):
            return None
    text = 'a\n  + b'
    res = refjs.parse(text)
    # build a fake implementation tree with wrong positions
    def mk(lexpos, lineno, colno, tm=None):
        ident_a = FakeNode(value='a', lexpos=0, lineno=1, colno=1, _token_map={})
        ident_b = FakeNode(value='b', lexpos=6, lineno=2, colno=5, _token_map={})
        ident_a.__class__ = type('Identifier', (FakeNode,), {})
        ident_b.__class__ = type('Identifier', (FakeNode,), {})
        binop = FakeNode(op='+', left=ident_a, right=ident_b, lexpos=lexpos, lineno=lineno, colno=colno,
                         _token_map=tm or {'+': [(4, 2, 3)]})
        binop.__class__ = type('BinOp', (FakeNode,), {})
        st = FakeNode(expr=binop, lexpos=0, lineno=1, colno=1, _token_map={})
        st.__class__ = type('ExprStatement', (FakeNode,), {})
        prog = FakeNode(_children_list=[st], lexpos=0, lineno=1, colno=1, _token_map={})
        prog.__class__ = type('ES5Program', (FakeNode,), {})
        return prog
    good, _ = audit(text, mk(4, 2, 3), res, set())
    planted = [audit(text, mk(6, 2, 5), res, set())[0],        # points at the right operand
               audit(text, mk(4, 1, 5), res, set())[0],        # line/column disagree with offset
               audit(text, mk(4, 2, 3, {'+': [(5, 2, 4)]}), res, set())[0],   # token map: no '+' there
               audit(text, mk(4, 2, 3, {'+': [(4, 2, 4)]}), res, set())[0]]   # token map column wrong
    if good or not all(planted):
        raise HarnessBroken('C11 oracle failed on planted observations: %r %r' % (good, planted))
    return len(planted) + 1


class Synth(object):
    """positions of the semicolons the lexer synthesised during one parse"""

    def __init__(self, ctx):
        self.pos = set()

    def install(self):
        from calmjs.parse.lexers.es5 import Lexer

        def after(snap, result, args, kwargs):
            self.pos.add(result.lexpos)
        self.rec = probe.wrap(Lexer, '_create_semi_token', after=after)
        return self

    def remove(self):
        self.rec.remove()


def audit_comment_nodes(ctx, text, res):
    """the nodes a comment-capturing parser returns in addition: the comment nodes (and their containers) carry
    positions like every node - offset, line and column agree, and the comment's text is at that offset"""
    out = []
    try:
        tree, err = work.run_impl(text, True)
    except Exception:
        return out
    if tree is None:
        return out          # C13's to report
    table = res.lines
    for path, node in vtree.reflect_walk(tree):
        kind = vtree.kind_of(node)
        if kind not in ('LineComment', 'BlockComment', 'Comments'):
            continue
        pos, line, col = node.lexpos, node.lineno, node.colno
        if pos is None and kind == 'Comments':
            continue
        ctx.hit('comment_node_position')
        if not isinstance(pos, int) or line is None or col is None:
            out.append(('C11:missing_position:%s' % kind, '%s at %s has position %r %r %r' % (kind, path, pos, line, col)))
            continue
        if table.linecol(pos) != (line, col):
            out.append(('C11:line_column_disagree:%s' % kind,
                        '%s at %s: lexpos %d is %s:%s by ES5 line counting, node says %s:%s' % (
                            (kind, path, pos) + table.linecol(pos) + (line, col))))
        if kind != 'Comments':
            if not text.startswith(node.value, pos):
                out.append(('C11:not_on_own_token:%s' % kind, '%s at %s has lexpos %d, the source there is %r, its text %r' % (
                    kind, path, pos, text[pos:pos + 12], node.value[:12])))
            for tk, entries in (getattr(node, '_token_map', None) or {}).items():
                for epos, eline, ecol in entries:
                    if not text.startswith(tk, epos) or table.linecol(epos) != (eline, ecol):
                        out.append(('C11:token_map_line_column:%s' % kind,
                                    '%s at %s records %r at offset %r as %s:%s; ES5 counting gives %s:%s, source there %r' % (
                                        (kind, path, tk[:12], epos, eline, ecol) + table.linecol(epos) + (text[epos:epos + 12],))))
    return out


TOKENLESS = ['', ' ', '\n', '\n\n', '\r\n', '\r', '\u2028\u2029', '   \t', '// c', '// c\n', '/* a */', '/* a\n b */',
             '/* a\r\n b */ ', '\n\n  // x\n', '\ufeff', '\ufeff\n', '/*a*/\r\n\r\n/*b*/ ', '\xa0\x0b\x0c', '//\u2028//\u2029//',
             '\n' * 40, '/*\n\n\n*/\n//x\r//y\r\n', ' \n \n ']


def check(ctx, synth, text, origin):
    synth.pos = set()
    s = work.both(text)
    if s.tree is None or s.ref is None:
        ctx.count('skipped:not_accepted_by_both')
        ctx.case(text, False)
        return None
    if work.uncertain(s.ref, s.ref_err) or work.skip_known(ctx, text, s.ref):
        ctx.case(text, False)
        return None
    if s.ci != s.cr:
        ctx.count('skipped:tree_disagreement')
        ctx.case(text, False)
        return None
    viol, stats = audit(text, s.tree, s.ref, set(synth.pos))
    ctx.hit('nodes_checked', stats['nodes'])
    ctx.hit('token_map_entries_checked', stats['entries'])
    ctx.hit('operator_position', stats['op'])
    ctx.hit('first_token_position', stats['first'])
    ctx.count('for_clause_placeholders', stats['placeholders'])
    if stats.get('tokenless'):
        ctx.hit('tokenless_node', stats['tokenless'])
    ctx.case(text, stats['nodes'] >= 5, sample={'origin': origin, 'text': text[:160], 'nodes': stats['nodes'],
                                               'token_map_entries': stats['entries']}
             if (stats['nodes'] >= 5 and ctx.rng.random() < 0.003) else None)
    if not viol and ('/*' in text or '//' in text):
        viol = audit_comment_nodes(ctx, text, s.ref)
        if viol:
            for mech, detail in viol[:1]:
                ctx.violation(mech, {'text': text, 'with_comments': True}, '%s\ninput: %r' % (detail, text[:300]))
            return viol
    seen = set()
    for mech, detail in viol:
        if mech in seen:
            continue
        seen.add(mech)

        def failing(t):
            synth.pos = set()
            try:
                s2 = work.both(t)
            except RecursionError:
                return False
            if s2.tree is None or s2.ref is None or s2.ci != s2.cr or work.skip_known(ctx, t, s2.ref):
                return False
            v2, _ = audit(t, s2.tree, s2.ref, set(synth.pos))
            return any(m == mech for m, _ in v2)
        small = text
        if len(text) > 12 and ctx.viol_count[mech] < 2:
            try:
                small = minimise_text(text, failing, 200)
            except Exception:
                small = text
        ctx.violation(mech, {'text': small, 'original': text if small != text else None},
                      '%s\ninput: %r' % (detail, small[:300]))
    return viol


def run(ctx):
    synth = Synth(ctx).install()
    try:
        def opts_fn(i, r):
            return jsgen.Opts(clean=(i % 2 == 0), unicode_idents=(i % 4 == 0), string_continuations=(i % 3 == 0))
        from vk.gen import products
        for idx, (key, text) in enumerate(products.lexical_products()):
            if idx % ctx.nshards != ctx.shard or (idx // ctx.nshards) % ctx.pick(6, 1):
                continue
            check(ctx, synth, text, 'lexical_product')
        # texts without any token: the program node is all there is
        for k, text in enumerate(TOKENLESS):
            if k % ctx.nshards == ctx.shard:
                check(ctx, synth, text, 'tokenless')
        progs = work.Programs(ctx, ctx.per_shard(400, 9000), opts_fn=opts_fn)
        kinds = set()
        for text, meta in progs:
            check(ctx, synth, text, meta['origin'])
            if ctx.out_of_time():
                break
        progs.report()
    finally:
        synth.remove()


def replay(ctx, witness):
    synth = Synth(ctx).install()
    try:
        for key in ('text', 'original'):
            if witness.get(key):
                check(ctx, synth, witness[key], 'replay')
    finally:
        synth.remove()


def canary(ctx, spec):
    sub = type(ctx)(ctx.prop, ctx.tier, ctx.seed, 0, 1, 30)
    sub._suppressed = set()
    synth = Synth(sub).install()
    try:
        check(sub, synth, spec['text'], 'canary')
    finally:
        synth.remove()
    return next(iter(sub.viol_count), None)

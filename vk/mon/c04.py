"""
C04 - automatic semicolon insertion follows ECMA-262 7.9 exactly.

Differential + metamorphic monitor on semicolon-omission variants (W4) of
generated programs, plus an ASI *event* monitor: wrappers on the lexer's
``auto_semi`` / ``_create_semi_token`` log every synthetic semicolon; on
accepted inputs the set of insertion points must equal the reference model's
ASI log.
"""

import bisect
import itertools

from vk.boot import HarnessBroken
from vk import tree as vtree
from vk import work, probe
from vk.gen import jsgen
from vk.ref import refjs
from vk.tree import first_diff
from vk.mon.c03 import template
from vk.ddmin import minimise_text

LEVEL = 'exploration'
RULE = ('programs: random Annex A derivations with explicit semicolons (one alternative forced per case) and '
        'hand-written ASI templates; variants: every subset (<=6 optional terminators, sampled beyond) of the '
        'statement terminators replaced by a separator drawn from LF, CR, CRLF, U+2028, U+2029, block comment '
        'containing a line terminator, line comment + break, break followed by a comment, or nothing; '
        'a case = (program, subset, separators); non-trivial = at least one terminator omitted.')
ASSUMPTIONS = ['refjs implements 7.9.1 literally (three rules, restricted productions, the two overriding conditions) '
               'and is the oracle; ES2015 do-while leniency is not part of the dialect']
BUDGET_S = {'quick': 75, 'thorough': 900}
REQUIRED_HITS = ['parse', 'create_semi_token', 'asi_events_compared', 'multiline_token', 'comment_capturing_parser']
FLOOR = {'quick': 3000, 'thorough': 40000}

SEPARATORS = [
    ('LF', '\n'), ('CR', '\r'), ('CRLF', '\r\n'), ('LS', '\u2028'), ('PS', '\u2029'),
    ('block_comment_with_LT', ' /* a\n b */ '), ('line_comment_LF', ' // c\n'),
    ('LF_then_comment', '\n/* c */ '), ('LF_then_line_comment_LF', '\n// c\n'),
    ('comment_no_LT', ' /* c */ '), ('space', ' '), ('nothing', ''),
]

TEMPLATES = [
    # 7.9.2 examples and the classic hazards; '@' marks a place where a separator is inserted
    '{ 1@2 } 3', 'for (a; b@)', 'return@a + b', 'a = b@++c', 'if (a > b)@else c = d',
    'a = b + c@(d + e).print()', 'a@(b)', 'a@[b]', 'a@/b/g', 'a@+b', 'a@-b', 'a@.b', 'a@,b', 'a@in b',
    'a@instanceof b', 'a@= b', 'a@? b : c', 'a ? b@: c', 'var a@= 1', 'var a = 1@var b', 'var a@, b',
    'function f(){ return@1 }', 'function f(){ return@}', 'function f(){ return@; }', 'for(;;){ break@foo }',
    'for(;;){ continue@}', 'foo: for(;;){ break@foo; }', 'foo: for(;;){ continue@foo; }', 'throw@x',
    'throw x@y', 'a@++@b', 'a@--@b', 'a++@b', 'a@b++', 'x = a@++', 'do x@while (y)', 'do x; while (y)@z',
    'do x; while (y)', 'do x; while (y) z', 'if (a) b@else c', 'if (a)@b', 'if (a)@', 'while (a)@', 'for (;;)@',
    'for (a@;;) b', 'for (a;@b;) c', 'for (a;b@) c', 'for (var a@in b) c', 'a@', '@a', 'a;@;b', '{@}', '{ a@}',
    '{ a }@b', 'var a = function(){}@(b)', 'var a = function(){}@b', 'function f(){}@g()', 'function f(){}@(g)',
    'a = {}@[b]', 'a = []@{b}', 'debugger@a', 'debugger@', 'a@debugger', 'x = 1@y = 2@z = 3', 'x = "s"@y',
    'x = /r/@y', 'x = /r/@/ 2', 'x = 1@/ 2 /@3', 'switch (a) { case 1: b@case 2: c@default: d@}', 'try { a@} catch (e) { b@} finally { c@}',
    'a@typeof b', 'a@void b', 'a@delete b', 'a@new b', 'a@this', 'a@null', 'a@true', 'a@function f(){}',
    'a@{ b }', 'var a@b', 'var a = b@c', 'x = a@!b', 'x = a@~b', 'if (a) return@b', 'with (a) b@c', 'l: a@b',
    'x = y@z: w', 'a@"use strict"', '"use strict"@a', 'a.b@c', 'a.@b', 'a[@b]', 'a(@b)', 'a(b@)', 'new a@(b)', 'new@a',
    'typeof@a', 'var@a', 'var a =@1', 'return@', 'break@', 'continue@', 'a = b@c = d@', 'i@++@j', 'i@--@j',
]


# every kind of statement end against every kind of statement start (whether a terminator may be omitted there
# depends on the pair: a '}' ends a block, an object literal, a function expression or a declaration)
_ENDS = ['x = {}', 'x = {a: 1}', 'x = function(){}', 'x = [1]', 'x = (a)', 'x = a', 'x = 1', 'x = "s"', 'x = /r/', 'x = this',
         'x = a.b', 'x = a[0]', 'x = f()', 'x = new F', 'x = a++', 'if (a) {}', '{}', 'function f(){}', 'do ; while (0)',
         'x = {get a(){}}', 'var v = {}', 'var v = function g(){}', 'x = a.return', 'x = !{}', 'x = typeof function(){}']
_STARTS = ['++y', '--y', '(y)', '[y]', '/r/.test(y)', '+y', '-y', 'y', '{y}', 'function g(){}', 'var w', 'if (y) z', '!y',
           '"s"', '.5', 'in y', 'instanceof y', '= y', ', y', '? y : z', '.y']
TEMPLATES = TEMPLATES + ['%s@%s' % (e, st) for e in _ENDS for st in _STARTS]


def variants_of_tokens(toks, rng, max_subsets):
    """yield (subset_indices, text) for W4"""
    semis = [i for i, (t, tag) in enumerate(toks) if tag == 'semi']
    if not semis:
        return
    if len(semis) <= 6:
        subsets = [s for r in range(len(semis) + 1) for s in itertools.combinations(semis, r)]
        if len(subsets) > max_subsets:
            subsets = [()] + rng.sample(subsets[1:], max_subsets - 1)
    else:
        subsets = [()] + [tuple(sorted(rng.sample(semis, rng.randint(1, len(semis)))))
                          for _ in range(max_subsets - 1)]
    for sub in subsets:
        out = []
        sub = set(sub)
        seps = []
        for i, (t, tag) in enumerate(toks):
            if i in sub:
                name, sep = rng.choice(SEPARATORS)
                seps.append(name)
                if sep == '' and i + 1 < len(toks) and out and jsgen.needs_space(
                        out[-1].strip() or 'a', toks[i + 1][0]):
                    sep = ' '
                out.append(sep)
            else:
                out.append(t)
                out.append(' ')
        yield tuple(sorted(sub)), seps, ''.join(out)


class RunawayInsertion(Exception):
    pass


class AsiLog(object):
    limit = 10 ** 9
    text_len = 0

    """wrappers on the real lexer: every synthetic semicolon is recorded"""

    def __init__(self, ctx):
        self.ctx = ctx
        self.events = []
        self.recs = []

    def install(self):
        from calmjs.parse.lexers.es5 import Lexer
        ctx = self.ctx

        def after_create(snap, result, args, kwargs):
            ctx.hit('create_semi_token')
            orig = args[1] if len(args) > 1 else kwargs.get('orig_token')
            self.events.append(None if orig is None else orig.lexpos)
            if len(self.events) > self.limit:
                # more semicolons than the text has characters: insertion without end (empty statement after
                # empty statement); stopped here, reported by the caller
                raise RunawayInsertion('%d semicolons inserted into a text of %d characters' % (len(self.events), self.text_len))

        def after_auto(snap, result, args, kwargs):
            ctx.hit('auto_semi')

        def before_error(args, kwargs):
            # the parser hands a synthetic semicolon back as the offending token: the grammar refused it where it
            # was offered (a '}' LF '/re/' is first read as a division, offered a semicolon, then re-read as a
            # regex): it was not supplied
            tok = args[1] if len(args) > 1 else kwargs.get('token')
            if tok is not None and getattr(tok, 'type', None) == 'AUTOSEMI' and self.events:
                self.events.pop()
                ctx.count('tentative_semicolon_refused')

        from calmjs.parse.parsers.es5 import Parser
        self.recs = [probe.wrap(Lexer, '_create_semi_token', after=after_create),
                     probe.wrap(Lexer, 'auto_semi', after=after_auto),
                     probe.wrap(Parser, 'p_error', before=before_error)]
        return self

    def remove(self):
        for r in self.recs:
            r.remove()

    def reset(self):
        self.events = []


def insertion_points_impl(events, ref_tokens, n):
    """map the recorded lexpos of each synthetic semicolon to 'after token k'"""
    ends = [t.end for t in ref_tokens]
    out = []
    for pos in events:
        if pos is None:
            out.append(len(ref_tokens) - 1)
        else:
            out.append(bisect.bisect_right(ends, pos) - 1)
    return sorted(out)


def judge(s, asi_events):
    """oracle over one observed execution"""
    if s.ref is not None and s.tree is not None:
        if s.ci != s.cr:
            return ('C04:tree_differs', 'tree differs from the one 7.9 dictates: %s' % first_diff(s.ci, s.cr))
        mine = insertion_points_impl(asi_events, s.ref.tokens, len(s.text))
        theirs = sorted(k for k, rule, off in s.ref.asi)
        if mine != theirs:
            return ('C04:insertion_points_differ',
                    'semicolons inserted after tokens %r, 7.9 inserts after %r (token texts: %r)' % (
                        mine, theirs, [t.value for t in s.ref.tokens][:40]))
        return None
    if s.ref is None and s.tree is None:
        return None
    if s.tree is None:
        if s.impl_exc_type:
            return ('C04:rejects_valid:crash:%s' % s.impl_exc_type, 'raised %s' % s.impl_err)
        return ('C04:rejects_valid:' + template(s.impl_err), '7.9 makes this text valid, rejected: %s' % s.impl_err)
    return ('C04:accepts_invalid:' + s.ref_err.kind,
            'no semicolon may be inserted to make this text valid (%s), yet accepted' % s.ref_err)


def selfcheck(ctx):
    class T(object):
        def __init__(self, end, value='t'):
            self.end, self.value = end, value

    class Ref(object):
        tokens = [T(1), T(3), T(5)]
        asi = [(0, 'newline', 2)]

    class S(object):
        text = 'a\nb c'
        ref = Ref()
        tree = object()
        ci = cr = ('x', ())
        impl_err = None
        impl_exc_type = None
        ref_err = None
    planted = [judge(S(), [4]),          # inserted at the wrong place
               judge(S(), []),           # reference inserts, implementation did not
               judge(S(), [2, None])]    # an extra insertion at end of input
    ok = judge(S(), [2])
    if not all(planted) or ok is not None:
        raise HarnessBroken('C04 oracle failed on planted observations: %r %r' % (planted, ok))
    return len(planted) + 1


def check(ctx, log, text, key, nontrivial, origin, sample=None):
    log.reset()
    log.limit, log.text_len = 4 * len(text) + 50, len(text)
    s = work.both(text)
    ctx.hit('parse')
    events = list(log.events)
    if work.uncertain(s.ref, s.ref_err) or work.skip_known(ctx, text, s.ref):
        ctx.case(key, False)
        return
    ctx.case(key, nontrivial, sample=sample)
    if s.ref is not None and s.tree is not None:
        ctx.hit('asi_events_compared')
        for k, rule, off in s.ref.asi:
            ctx.count('asi_rule:' + rule)
    ctx.count(origin + ':' + ('accept' if s.tree is not None else 'reject') + '/' +
              ('accept' if s.ref is not None else 'reject'))
    v = judge(s, events)
    if not v and ('/*' in text or '//' in text):
        # where a semicolon goes does not depend on whether the parser keeps the comments it passes: the layout
        # "line break inside a comment" judged once more with a comment-capturing parser
        ctx.hit('comment_capturing_parser')
        try:
            t2, e2 = work.run_impl(text, True)
            c2 = vtree.canon_impl(t2) if t2 is not None else None
        except RecursionError:
            c2 = s.ci
        except Exception as e:
            c2 = 'raised %s' % type(e).__name__
        if c2 != s.ci:
            v = ('C04:insertion_depends_on_comment_capture',
                 'parse(text) %s; with_comments=True %s' % (
                     'accepts' if s.tree is not None else 'rejects',
                     ('gives another tree: %s' % first_diff(s.ci, c2)) if (c2 is not None and s.ci is not None and not isinstance(c2, str))
                     else ('rejects' if c2 is None else 'accepts' if not isinstance(c2, str) else c2)))
            ctx.violation(v[0], {'text': text}, '%s\ninput: %r' % (v[1], text))
            return
    if v:
        mech, detail = v

        def failing(t):
            log.reset()
            try:
                s2 = work.both(t)
            except RecursionError:
                return False
            if work.uncertain(s2.ref, s2.ref_err) or work.skip_known(ctx, t, s2.ref):
                return False
            j = judge(s2, list(log.events))
            return j is not None and j[0] == mech
        small = text
        if len(text) > 10 and ctx.viol_count[mech] < 2:
            try:
                small = minimise_text(text, failing, 250)
            except Exception:
                small = text
        ctx.violation(mech, {'text': small, 'original': text if small != text else None},
                      '%s\ninput: %r' % (detail, small))


def run(ctx):
    log = AsiLog(ctx).install()
    try:
        rng = ctx.rng
        # templates x separators (partitioned)
        idx = 0
        for tpl in TEMPLATES:
            n_at = tpl.count('@')
            for combo in itertools.product(SEPARATORS, repeat=min(n_at, 2)):
                idx += 1
                if idx % ctx.nshards != ctx.shard:
                    continue
                parts = tpl.split('@')
                text = parts[0]
                for i, p in enumerate(parts[1:]):
                    text += combo[min(i, len(combo) - 1)][1] + p
                check(ctx, log, text, ('tpl', tpl, tuple(c[0] for c in combo)), True, 'template',
                      sample={'template': tpl, 'separators': [c[0] for c in combo], 'text': text}
                      if idx % 997 == 0 else None)
        ctx.count('templates', len(TEMPLATES))

        # a line break inside a string is not one between tokens; one inside a comment is
        for idx, text in enumerate(work.multiline_token_texts()):
            if idx % ctx.nshards == ctx.shard:
                check(ctx, log, text, text, True, 'multiline_token')
                ctx.hit('multiline_token')

        from vk.gen import products
        for idx, (key, text) in enumerate(products.lexical_products()):
            if idx % ctx.nshards != ctx.shard or (ctx.tier == 'quick' and (idx // ctx.nshards) % 2):
                continue
            check(ctx, log, text, text, '\n' in text or '\u2028' in text, 'lexical_product')
            ctx.hit('lexical_product')

        nprog = ctx.per_shard(160, 2600)
        max_subsets = ctx.pick(16, 64)

        def opts_fn(i, r):
            return jsgen.Opts(clean=(i % 3 != 0), max_stmts=5, unicode_idents=(i % 4 == 1), string_continuations=(i % 2 == 0))
        progs = work.Programs(ctx, nprog, opts_fn=opts_fn, use_corpus=False, layouts=('space',), long_every=0)
        for text, meta in progs:
            toks = meta['toks']
            for sub, seps, vtext in variants_of_tokens(toks, rng, max_subsets):
                check(ctx, log, vtext, vtext, len(sub) > 0, 'variant',
                      sample={'omitted_terminators': len(sub), 'separators': seps, 'text': vtext[:240]}
                      if (sub and rng.random() < 0.002) else None)
                for name in seps:
                    ctx.count('separator:' + name)
            if ctx.out_of_time():
                break
        progs.report()
    finally:
        log.remove()


def _one(ctx, text):
    log = AsiLog(ctx).install()
    try:
        log.reset()
        s = work.both(text)
        ctx.hit('parse')
        return judge(s, list(log.events)), s
    finally:
        log.remove()


def replay(ctx, witness):
    for key in ('text', 'original'):
        t = witness.get(key)
        if t:
            v, s = _one(ctx, t)
            if v and not work.uncertain(s.ref, s.ref_err):
                ctx.violation(v[0], {'text': t}, v[1] + '\ninput: %r' % t)


def canary(ctx, spec):
    v, s = _one(ctx, spec['text'])
    return v[0] if v else None

"""
C15 - parsing is a pure function of the text: no history or thread effects.

Goldens come from fresh processes (one subprocess per text).  (a) sequential
history monitor: every ordered pair (thorough: triples over a smaller pool) of
(text, capture flag) in one process, plus long random histories; (b)
interleaving stressor: thread pools drawing from a small pool of texts under
several switch intervals and under sys.monitoring LINE yield injection, each
operation stamped with call / return sequence numbers so that truly overlapping
operations can be counted; (c) fingerprints of the objects all parsers share,
before and after every phase.
"""

import itertools
import json
import os
import subprocess
import sys
import threading
import time

from vk.boot import HarnessBroken
from vk import boot, probe
from vk.run import h64
from vk import tree as vtree

LEVEL = 'exploration'
RULE = ('operations parse(t, with_comments=f) over a pool of 45 valid, invalid and lexically nasty texts x {f}; goldens '
        'from fresh processes; (a) all ordered pairs (thorough: triples over 14 texts) in one process + random histories '
        'of 200 calls; the same through the quick-access object calmjs.parse.es5 (called, and its pretty_print / '
        'minify_print as history) over a 14-item pool; (b) 8-32 threads x many parses under switch intervals 5e-3, 1e-4, 1e-5, 1e-6 and under LINE yield '
        'injection; a case = one history / one (phase, thread, operation); non-trivial = history length >= 2, or the '
        'operation overlapped another thread\'s operation; distinct by operation sequence.')
ASSUMPTIONS = ['reuse of one Parser object is documented as stateful and is not part of the property',
               'thread schedules are explored by stress (switch interval sweep, yield injection), not enumerated; the '
               'evidence reports how many operation pairs really overlapped']
BUDGET_S = {'quick': 120, 'thorough': 800}
REQUIRED_HITS = ['golden_from_fresh_process', 'sequential_call', 'entry_point_call', 'concurrent_call', 'overlapping_pairs', 'concurrent_other_entry_point',
                 'yield_injected', 'shared_state_compared']
FLOOR = {'quick': 2000, 'thorough': 10000}
MAX_SHARDS = 16

VERIF = os.path.dirname(os.path.dirname(os.path.dirname(os.path.abspath(__file__))))

POOL = [
    'var a = 1;', 'a\nb', 'a = b\n++c', 'x = a / b / c; y = /re/g.test(z);', 'if (a) /r/.test(b); else {}',
    'function f(a, b) { return a + b }\nf(1, 2)', 'for (var i = 0; i < 3; i++) { continue }',
    '/* c1 */ var x = /* c2 */ 1; // c3\nfunction g() { /* c4 */ return // c5\n x }',
    'x = {get a() { return 1 }, set a(v) {}, get: 1}', 'a = [1, , 2, , ]', 'return\n/re/', '{} /re/.exec(s)',
    'switch (a) { case 1: b; default: c }', 'try { a } catch (e) { b } finally { c }', 'l: for (;;) break l',
    'x = "a\\\nb" + \'c\\u0041\'', 'a\u2028b\u2029c', 'var 变量 = 1', 'do x; while (y) z', '',
    # invalid
    'var', 'a b', '(', ')', 'x = ;', 'if (a', '"unterminated', '/* open', 'x = /[/', '@', 'a = 1 +', 'for (;;', '{',
    'function () {}', 'x = {get "a"() {}}', '3in x', 'a\n++',
    # (appended later; the indices above are referred to by number)  reserved words as property names, the
    # first member accesses a process may see
    'x = a.return / 2 / 1; y = b.if (c) / 2 / d', 'p.continue\n.q()', 'o.class.x = o.in / 2 / o.new', 'a.b.c',
    # the same escape sequence at a position where it is allowed and at one where it is not
    'a\\u0030 = 1;', '\\u0030a = 1;', 'x\\u0301 = \\u00e9;', '\\u0301x = 1', 'b\\u0030c = \\u0062 + b\\u0030',
    # empty containers of every kind: what a constructor falls back to when the source gives it nothing
    'o = {}; a = []; f(); new G; new H(); function e() {} {} x = function () {}; switch (s) {} for (;;) ; try {} finally {}',
    'var options = {}, list = [], g = {get p() {}, set p(v) {}}; if (a) {} else {} l: ; y = [,]; z = (function () {})()',
]


def fingerprint_result(text, flag, entry=0):
    """harness's own reflective fingerprint of the outcome of one parse.  entry 0: parsers.es5.parse;
    entry 1: the quick-access object calmjs.parse.es5 called with the text (without the keyword at all when
    the flag is off); entries 2 / 3: es5.pretty_print / es5.minify_print of the text - parses whose tree is
    not returned: their outcome is not compared, they are history for the calls that follow"""
    try:
        if entry == 0:
            from calmjs.parse.parsers.es5 import parse
            # (the three ways of writing the call)
            k = len(text) % 3
            t = parse(text, with_comments=flag) if k == 0 else parse(text, flag) if k == 1 else \
                (parse(text, with_comments=True) if flag else parse(text))
        elif entry == 4:
            # the read helper of calmjs.parse.io (and es5.read): a parse on behalf of a named stream; its result carries
            # the stream's name by design, so it is history / company for the other calls, not compared itself
            import io as _io
            from calmjs.parse import io as cio
            from calmjs.parse.parsers.es5 import parse
            stream = _io.StringIO(text)
            stream.name = 'streams/file %d.js' % (len(text) % 5)
            cio.read((lambda tx: parse(tx, with_comments=True)) if flag else parse,
                     stream if len(text) % 2 else (lambda: stream))
            return 'printed'
        else:
            from calmjs.parse import es5
            if entry == 1:
                t = es5(text, with_comments=True) if flag else es5(text)
            else:
                f = es5.pretty_print if entry == 2 else es5.minify_print
                f(text, with_comments=True) if flag else f(text)
                return 'printed'
        fp = 'tree:%016x' % h64(repr(vtree.fingerprint(t)))
        # the tree is the caller's from here on (read() labels it with a file name, a transformation edits it):
        # what a caller does to one result is no part of any later result
        try:
            t.sourcepath = 'edited/by/the/caller.js'
            ch = t.children()
            if isinstance(ch, list):
                del ch[1:]
            t.lexpos = t.lineno = t.colno = -7
            # ... nor what it adds to the containers of any node of it (an empty literal, parameter list or body is a
            # container the caller may fill)
            for _, n in list(vtree.reflect_walk(t)):
                for k, v in list(vars(n).items()):
                    if isinstance(v, list):
                        v.append('added by the caller')
                    elif isinstance(v, dict):
                        v['added by the caller'] = [(-1, -1, -1)]
        except Exception:
            pass
        return fp
    except Exception as e:
        return 'printed' if entry >= 2 else 'exc:%s:%s' % (type(e).__name__, str(e))


GOLDEN_CODE = r'''
import sys, json
sys.path.insert(0, %(verif)r)
from vk import boot
boot.pin(%(root)r)
from vk.mon.c15 import fingerprint_result
text = json.loads(%(text)r)
print(json.dumps(fingerprint_result(text, %(flag)r)))
'''


def golden_in_fresh_process(root, text, flag):
    code = GOLDEN_CODE % {'verif': VERIF, 'root': root, 'text': json.dumps(text), 'flag': flag}
    env = dict(os.environ, PYTHONDONTWRITEBYTECODE='1', PYTHONHASHSEED='0')
    r = subprocess.run([sys.executable, '-c', code], capture_output=True, text=True, env=env, timeout=120)
    if r.returncode != 0:
        raise HarnessBroken('golden process failed: %s' % r.stderr[-400:])
    return json.loads(r.stdout.strip().splitlines()[-1])


def goldens(ctx):
    """shards split the pool, exchange results through the scratch directory"""
    root = os.environ[boot.ENV_SCRATCH]
    d = os.path.join(root, 'c15-goldens')
    os.makedirs(d, exist_ok=True)
    items = [(i, f) for i in range(len(POOL)) for f in (False, True)]
    mine = [it for k, it in enumerate(items) if k % ctx.nshards == ctx.shard]
    out = {}
    for i, f in mine:
        out['%d/%d' % (i, f)] = golden_in_fresh_process(root, POOL[i], f)
        ctx.hit('golden_from_fresh_process')
    tmp = os.path.join(d, 'shard-%d.json.tmp' % ctx.shard)
    with open(tmp, 'w') as fh:
        json.dump(out, fh)
    os.replace(tmp, os.path.join(d, 'shard-%d.json' % ctx.shard))
    deadline = time.monotonic() + 180
    allg = {}
    while True:
        files = [os.path.join(d, 'shard-%d.json' % s) for s in range(ctx.nshards)]
        if all(os.path.exists(p) for p in files):
            for p in files:
                with open(p) as fh:
                    allg.update(json.load(fh))
            break
        if time.monotonic() > deadline:
            raise HarnessBroken('goldens of other shards did not arrive')
        time.sleep(0.1)
    return dict(((int(k.split('/')[0]), bool(int(k.split('/')[1]))), v) for k, v in allg.items())


def shared_state():
    """fingerprints of objects all parsers share"""
    import calmjs.parse.parsers.es5 as pes5
    import calmjs.parse.lexers.es5 as les5
    import calmjs.parse.asttypes as at
    out = {}
    for name, mod in list(sys.modules.items()):
        if name.startswith('calmjs.parse.parsers.') and ('lextab' in name or 'yacctab' in name):
            out[name] = h64(repr(sorted((k, repr(v)) for k, v in vars(mod).items() if k.startswith('_l') or k.startswith('_t'))))
    lx = les5.Lexer
    out['Lexer.class'] = h64(repr(sorted((k, repr(v)) for k, v in vars(lx).items()
                                         if isinstance(v, (str, tuple, dict, frozenset, list, int)))))
    out['lexer.module'] = h64(repr(sorted((k, repr(v)) for k, v in vars(les5).items()
                                          if isinstance(v, (str, tuple, dict, frozenset, list, int)) and not k.startswith('__'))))
    out['asttypes.factory'] = h64(repr(sorted((k, v.__name__, tuple(b.__name__ for b in v.__bases__))
                                              for k, v in pes5.asttypes.classes.items())))
    out['parsers.es5.globals'] = h64(repr(sorted((k, repr(v)) for k, v in vars(pes5).items()
                                                 if isinstance(v, (str, tuple, dict, list, int)) and not k.startswith('__'))))
    out['asttypes.Node.defaults'] = h64(repr((at.Node.lexpos, at.Node.lineno, at.Node.colno, at.Node.sourcepath, at.Node.comments)))
    return out


def check_history(gold, history, results):
    """oracle: every result of a history equals its fresh-process golden"""
    out = []
    for k, (op, r) in enumerate(zip(history, results)):
        i, f = op[0], op[1]
        if len(op) > 2 and op[2] >= 2:
            continue        # a print through the quick-access object: history only
        if r != gold[(i, f)]:
            prev = history[k - 1] if k else None
            out.append(('C15:result_depends_on_history',
                        'parse(POOL[%d], with_comments=%s) gave %s; in a fresh process: %s; previous call: %s' % (
                            i, f, r[:120], gold[(i, f)][:120],
                            None if prev is None else 'POOL[%d] (%r), with_comments=%s%s' % (
                                prev[0], POOL[prev[0]][:30], prev[1],
                                '' if len(prev) < 3 else ' via ' + ENTRIES[prev[2]]))))
            break
    return out


ENTRIES = ['parsers.es5.parse', 'calmjs.parse.es5(text)', 'calmjs.parse.es5.pretty_print(text)',
           'calmjs.parse.es5.minify_print(text)', 'calmjs.parse.io.read(parse, stream)']


def selfcheck(ctx):
    g = {(0, False): 'tree:1', (1, False): 'exc:E:x'}
    planted = [check_history(g, [(0, False), (1, False)], ['tree:1', 'exc:E:y']),
               check_history(g, [(1, False), (0, False)], ['exc:E:x', 'tree:2'])]
    if not all(planted) or check_history(g, [(0, False), (1, False)], ['tree:1', 'exc:E:x']):
        raise HarnessBroken('C15 oracle failed on planted observations')
    return 3


class Seq(object):
    """one atomic counter for call / return stamps"""

    def __init__(self):
        self.lock = threading.Lock()
        self.n = 0

    def next(self):
        with self.lock:
            self.n += 1
            return self.n


def concurrent_phase(ctx, gold, nthreads, per_thread, interval, inject, label, small_pool):
    seq = Seq()
    logs = [[] for _ in range(nthreads)]
    rngs = [__import__('random').Random(h64('%s/%s/%s/%d' % (ctx.seed, ctx.shard, label, t))) for t in range(nthreads)]
    start = threading.Barrier(nthreads)
    company = [0]

    def worker(tid):
        log = logs[tid]
        r = rngs[tid]
        start.wait()
        for _ in range(per_thread):
            i, f = r.choice(small_pool)
            # every other thread does a third of its operations through the other public entry points (the quick-access
            # object, its print shortcuts, the read helper): company for the parses whose results are compared
            entry = r.choice((1, 2, 3, 4, 4)) if (tid & 1 and r.random() < 0.34) else 0
            c = seq.next()
            res = fingerprint_result(POOL[i], f, entry)
            e = seq.next()
            log.append((c, e, i, f, res if entry < 2 else None))
            if entry:
                company[0] += 1

    old = sys.getswitchinterval()
    sys.setswitchinterval(interval)
    inj = None
    try:
        if inject:
            inj = probe.LineInjector(('calmjs/parse', 'ply/'), 0.02,
                                     __import__('random').Random(h64('inj/%s/%s' % (ctx.seed, ctx.shard))))
            inj.__enter__()
        threads = [threading.Thread(target=worker, args=(t,)) for t in range(nthreads)]
        for t in threads:
            t.start()
        for t in threads:
            t.join()
    finally:
        if inj is not None:
            inj.__exit__(None, None, None)
            ctx.hit('yield_injected', inj.fired)
            ctx.count('line_events_under_injection', inj.events)
        sys.setswitchinterval(old)
    # offline check of the merged log
    ops = sorted((op + (tid,) for tid, log in enumerate(logs) for op in log))
    overlapping = 0
    active_end = []
    for k, (c, e, i, f, res, tid) in enumerate(ops):
        # an operation overlaps every earlier one that has not returned at its call stamp
        ov = sum(1 for (e2, t2) in active_end if e2 > c and t2 != tid)
        overlapping += ov
        active_end = [(e2, t2) for (e2, t2) in active_end if e2 > c] + [(e, tid)]
        ctx.hit('concurrent_call')
        ctx.case((label, tid, c), ov > 0)
        if res is not None and res != gold[(i, f)]:
            ctx.violation('C15:result_depends_on_concurrency', {'phase': label, 'text_index': i, 'with_comments': f},
                          'under %s (%d threads, switch interval %g%s) parse(POOL[%d]=%r, with_comments=%s) gave %s; '
                          'fresh process: %s; %d other operations were in flight' % (
                              label, nthreads, interval, ', yield injection' if inject else '', i, POOL[i][:40], f,
                              res[:100], gold[(i, f)][:100], ov))
    ctx.hit('overlapping_pairs', overlapping)
    ctx.hit('concurrent_other_entry_point', company[0])
    ctx.count('overlapping_pairs:' + label, overlapping)
    ctx.count('operations:' + label, len(ops))


def run(ctx):
    gold = goldens(ctx)
    ctx.extra['goldens'] = len(gold)
    fingerprint_result('warm = up;', True)      # the table modules are imported by the first parser
    state0 = shared_state()
    items = [(i, f) for i in range(len(POOL)) for f in (False, True)]

    def state_check(phase):
        ctx.hit('shared_state_compared')
        now = shared_state()
        for k in set(state0) | set(now):
            if state0.get(k) != now.get(k):
                ctx.violation('C15:shared_state_changed:%s' % k.split('.')[-1].split('_')[0],
                              {'phase': phase, 'object': k}, 'shared object %s changed during %s' % (k, phase))

    # a first, short round of the thread phases, so that they are observed whatever the load on the machine
    # does to the time the sequential phases take (the long rounds follow below)
    first_pool = [(i, f) for i in (2, 3, 7, 8, 11, 27) for f in (False, True)]
    concurrent_phase(ctx, gold, 8, 3, 1e-5, False, 'first_interval_1e-05', first_pool)
    concurrent_phase(ctx, gold, 6, 2, 1e-5, True, 'first_yield_injection', first_pool)
    state_check('first thread round')

    # (a) all ordered pairs, partitioned
    idx = 0
    if ctx.tier == 'thorough':
        small = [(i, f) for i in (0, 2, 3, 7, 8, 11, 16, 20, 22, 26, 27, 28, 34, 35) for f in (False, True)]
        space = itertools.chain(itertools.product(items, repeat=2), itertools.product(small, repeat=3))
    else:
        space = itertools.product(items, repeat=2)
    complete = True
    for hist in space:
        idx += 1
        if idx % ctx.nshards != ctx.shard:
            continue
        results = [fingerprint_result(POOL[i], f) for i, f in hist]
        ctx.hit('sequential_call', len(hist))
        ctx.case(('seq',) + tuple(hist), True,
                 sample={'history': [[POOL[i][:30], f] for i, f in hist]} if idx % 4001 == 0 else None)
        for mech, detail in check_history(gold, hist, results):
            ctx.violation(mech, {'history': [list(x) for x in hist]}, detail)
        if not (idx & 0xff) and ctx.time_left() < ctx.budget_s * 0.55:
            complete = False
            break
    ctx.extra['pairs_complete'] = complete
    state_check('sequential pairs')
    rng = ctx.rng
    for _ in range(ctx.pick(2, 20)):
        hist = [rng.choice(items) for _ in range(200)]
        results = [fingerprint_result(POOL[i], f) for i, f in hist]
        ctx.hit('sequential_call', len(hist))
        ctx.case(('seq',) + tuple(hist), True)
        for mech, detail in check_history(gold, hist, results):
            ctx.violation(mech, {'history': [list(x) for x in hist]}, detail)
    state_check('random histories')

    # (a') the same through the other public entry points: every (entry, text, flag) followed by a parse
    # through parse() or through the quick-access object, over the small pool; then mixed random histories
    small_items = [(i, f) for i in (2, 3, 7, 8, 11, 15, 27) + tuple(range(len(POOL) - 11, len(POOL))) for f in (False, True)]
    idx = 0
    for first in itertools.product(small_items, (1, 2, 3, 4)):
        for second in itertools.product(small_items, (0, 1)):
            idx += 1
            if idx % ctx.nshards != ctx.shard:
                continue
            hist = [first[0] + (first[1],), second[0] + (second[1],)]
            results = [fingerprint_result(POOL[i], f, e) for i, f, e in hist]
            ctx.hit('entry_point_call', 2)
            ctx.case(('entry',) + tuple(hist), True)
            for mech, detail in check_history(gold, hist, results):
                ctx.violation(mech + ':across_entry_points', {'history': [list(x) for x in hist]}, detail)
    for _ in range(ctx.pick(2, 20)):
        hist = [rng.choice(items) + (rng.choice((0, 0, 1, 1, 2, 3, 4)),) for _ in range(120)]
        results = [fingerprint_result(POOL[i], f, e) for i, f, e in hist]
        ctx.hit('entry_point_call', len(hist))
        ctx.case(('entry',) + tuple(hist), True)
        for mech, detail in check_history(gold, hist, results):
            ctx.violation(mech + ':across_entry_points', {'history': [list(x) for x in hist]}, detail)
    state_check('entry-point histories')

    # (b) interleaving stressor: few keys, many threads
    small_pool = [(i, f) for i in (2, 3, 7, 8, 11, 27) for f in (False, True)]
    per = ctx.pick(6, 60)
    for interval in (5e-3, 1e-4, 1e-5, 1e-6):
        if ctx.time_left() < 10:
            break
        concurrent_phase(ctx, gold, 8 if interval > 1e-5 else 16, per, interval, False,
                         'interval_%g' % interval, small_pool)
        state_check('threads at switch interval %g' % interval)
    if ctx.time_left() > 8:
        concurrent_phase(ctx, gold, 8, ctx.pick(2, 12), 1e-5, True, 'yield_injection', small_pool)
        state_check('yield injection')
    else:
        ctx.note('yield-injection phase skipped for lack of time in shard %d' % ctx.shard)


def replay(ctx, witness):
    gold = goldens(ctx)
    if 'history' in witness:
        hist = [(op[0], bool(op[1])) + tuple(op[2:3]) for op in witness['history']]
        results = [fingerprint_result(POOL[op[0]], op[1], *op[2:3]) for op in hist]
        for mech, detail in check_history(gold, hist, results):
            ctx.violation(mech, witness, detail)
    else:
        small_pool = [(witness.get('text_index', 2), bool(witness.get('with_comments')))] + [(3, False), (7, True)]
        for interval in (1e-4, 1e-6):
            concurrent_phase(ctx, gold, 16, 30, interval, False, 'replay_%g' % interval, small_pool)


def canary(ctx, spec):
    return None

"""
C12 - any input either parses or raises the ECMAScript syntax error, only.

Totality monitor: an outcome classifier around the real entry points
(``parse`` with and without comment capture, iterating ``Lexer``), a logical
step budget raised from a hook on ``Lexer._token`` (so that a loop becomes a
deterministic witness instead of a timeout), and a checker of the position
quoted in syntax-error messages against an independent line table.
"""

import ast
import itertools
import re
import traceback

from vk.boot import HarnessBroken
from vk import work, probe
from vk.gen import jsgen
from vk.ref import refjs

LEVEL = 'exploration'
RULE = ('inputs: every truncation and seeded single-character corruptions (hostile set: quotes, backslash, /, *, '
        'brackets, every line terminator, NUL, BOM, non-BMP, lone surrogates) of corpus and generated programs; '
        'every string of length<=3 (thorough: 4, sharded, time-capped) over a 44-character lexical alphabet; random '
        'strings over the full Unicode range; pathological nesting and length, runs of 10 .. 3000 (thorough: 60000) '
        'separators (blank lines, comments) between tokens; a bounded-progress probe in a child process: 150 '
        'repetition shapes (escapes in unterminated strings, regex bodies, comments, look-aheads) escalated from 6 to '
        '320 repetitions, each parse limited to 2 CPU seconds. A case = (text, entry point); '
        'non-trivial = the input is NOT accepted (an accepted input exercises no error path); distinct by text.')
ASSUMPTIONS = ['documented behaviour: non-str arguments raise TypeError (not generated); memory limits out of scope',
               'step budget: token deliveries + error-handler calls <= 6*len(text)+60 per parse']
BUDGET_S = {'quick': 55, 'thorough': 1500}
REQUIRED_HITS = ['parse', 'lexer_iter', 'message_position_checked', 'step_hook', 'blowup_probe', 'shape', 'identifier_escape', 'foreign_syntax']
FLOOR = {'quick': 20000, 'thorough': 150000}

CHAR_ALPHABET = list('ab1.0xe"\'\\/*(){}[];,:?=+-<>!&|~^% \n\r\t_$') + ['\u2028', '\ufeff', '\xe9', '\u0660', '\u0301', '\u203f']


class BudgetExceeded(BaseException):
    pass


class Steps(object):
    def __init__(self, ctx):
        self.ctx = ctx
        self.n = 0
        self.limit = 10 ** 9
        self.max_ratio = 0.0

    def install(self):
        from calmjs.parse.lexers.es5 import Lexer

        def before(args, kwargs):
            self.n += 1
            if self.n > self.limit:
                raise BudgetExceeded('more than %d lexer steps' % self.limit)

        self.recs = [probe.wrap(Lexer, '_token', before=before),
                     probe.wrap(Lexer, 'auto_semi', before=before)]
        return self

    def remove(self):
        for r in self.recs:
            r.remove()

    def start(self, text):
        self.n = 0
        self.limit = 6 * len(text) + 60

    def done(self, text):
        self.ctx.hit('step_hook', self.n)
        r = self.n / float(len(text) + 10)
        if r > self.max_ratio:
            self.max_ratio = r


_QUOTED = re.compile(r'''(?P<q>'(?:[^'\\]|\\.)*'|"(?:[^"\\]|\\.)*") at (?P<l>\d+):(?P<c>\d+)''', re.S)


_ANY_QUOTED = re.compile(r'''(?P<q>'(?:[^'\\]|\\.)*'|"(?:[^"\\]|\\.)*") at (?P<p>\S+)''', re.S)
_REGEX_MSG = re.compile(r"^Error parsing regular expression '(?P<q>.*)' at (?P<l>\d+):(?P<c>\d+)$", re.S)
_CLASSES = ['Error parsing regular expression', 'Unexpected end of input', 'Unexpected', 'Illegal character',
            'Unterminated string literal', 'Invalid hexadecimal escape sequence', 'Invalid unicode escape sequence',
            'Mismatched', 'Function statement requires a name']


def msg_class(msg):
    for c in _CLASSES:
        if msg.startswith(c):
            return c
    return ' '.join(msg.split()[:2])[:40]


def check_message(text, msg):
    """
    The line:column quoted for the *offending* (first) quotation must be a
    place where that text occurs.  Returns None / 'unchecked' / a defect text.
    """
    # the position quoted for the offending text (the first quotation) is a pair of numbers, or it names no place
    first = _ANY_QUOTED.search(msg)
    if first and not re.match(r'^\d+:\d+$', first.group('p').rstrip('.,;')):
        return 'message %r quotes %s at %r: not a line:column' % (msg[:120], first.group('q')[:30], first.group('p'))
    m = _REGEX_MSG.match(msg)
    if m:
        q = m.group('q')       # this message quotes the raw text, not its repr
    else:
        m = _QUOTED.search(msg)
        if not m:
            return 'unchecked'
        try:
            q = ast.literal_eval(m.group('q'))
        except Exception:
            return 'unchecked'
    line, col = int(m.group('l')), int(m.group('c'))
    table = refjs.LineTable(text)
    off = table.offset(line, col)
    if off is None or off < 0 or off > len(text):
        return 'message %r quotes position %d:%d which is outside the input' % (msg[:120], line, col)
    if q.endswith('...'):
        q = q[:-3]
    if msg.startswith('Unterminated string literal'):
        q = q.rstrip()
    if not text.startswith(q, off):
        return 'message %r: the quoted text %r does not occur at %d:%d (input there: %r)' % (
            msg[:120], q[:40], line, col, text[off:off + max(8, len(q))][:40])
    return None


def selfcheck(ctx):
    planted = [
        check_message('var a = @;', "Illegal character '@' at 1:8 after '=' at 1:7"),     # column off by one
        check_message('a\nb c', "Unexpected 'c' at 1:3 after 'b' at 2:1"),                  # wrong line
        check_message('x', "Unexpected 'y' at 1:1"),
        check_message('a', "Unexpected 'a' at 7:1"),
        check_message("x = /'e", "Error parsing regular expression '/'e' at 1:4"),
    ]
    ok = [check_message('var a = @;', "Illegal character '@' at 1:9 after '=' at 1:7"),
          check_message('a\nb c', "Unexpected 'c' at 2:3 after 'b' at 2:1"),
          check_message('"abcdefghijklmnopqrstuvwxyz', "Unterminated string literal '\"abcdefghijklmnop...' at 1:1"),
          check_message("x = /'e", "Error parsing regular expression '/'e' at 1:5")]
    if not all(p and p != 'unchecked' for p in planted) or any(ok):
        raise HarnessBroken('C12 message checker failed on planted observations %r %r' % (planted, ok))
    return len(planted) + len(ok)


def innermost_repo_frame(exc):
    tb = traceback.extract_tb(exc.__traceback__)
    for fr in reversed(tb):
        if '/calmjs/parse/' in fr.filename:
            return '%s:%s' % (fr.filename.split('/calmjs/parse/')[-1], fr.name)
    for fr in reversed(tb):
        if '/ply/' in fr.filename:
            return 'ply/%s:%s' % (fr.filename.split('/')[-1], fr.name)
    return 'unknown'


def run_entry(entry, text):
    from calmjs.parse.parsers.es5 import parse
    from calmjs.parse.lexers.es5 import Lexer
    if entry == 'parse':
        return parse(text)
    if entry == 'parse_comments':
        return parse(text, with_comments=True)
    lx = Lexer(yield_comments=(entry == 'lexer_comments'))
    lx.input(text)
    n = 0
    for t in lx:
        n += 1
    return n


def check(ctx, steps, text, origin, entries=('parse',)):
    from calmjs.parse.exceptions import ECMASyntaxError
    for entry in entries:
        steps.start(text)
        outcome = 'accepted'
        try:
            run_entry(entry, text)
        except ECMASyntaxError as e:
            outcome = 'syntax_error'
            msg = str(e)
            r = check_message(text, msg)
            if r == 'unchecked':
                ctx.count('message_without_position')
            else:
                ctx.hit('message_position_checked')
                ctx.count('message_class:' + msg_class(msg))
                if r:
                    ctx.violation('C12:message_position:%s' % msg_class(msg), {'text': text, 'entry': entry}, r)
        except BudgetExceeded as e:
            outcome = 'budget'
            ctx.violation('C12:step_budget_exceeded', {'text': text[:5000], 'entry': entry},
                          '%s on an input of length %d via %s' % (e, len(text), entry))
        except RecursionError as e:
            outcome = 'recursion'
            ctx.violation('C12:escaped:RecursionError@%s' % innermost_repo_frame(e),
                          {'text': text[:5000], 'entry': entry}, 'RecursionError via %s' % entry)
        except MemoryError:
            outcome = 'memory'
            ctx.count('memory_error')
        except Exception as e:
            outcome = 'escaped'
            mech = 'C12:escaped:%s@%s' % (type(e).__name__, innermost_repo_frame(e))
            ctx.violation(mech, {'text': text[:5000], 'entry': entry},
                          '%s: %s escaped from %s\ninput: %r' % (type(e).__name__, str(e)[:200], entry, text[:200]))
        steps.done(text)
        ctx.hit('parse' if entry.startswith('parse') else 'lexer_iter')
        ctx.count('%s:%s' % (entry, outcome))
        ctx.case((entry, text), outcome != 'accepted',
                 sample={'origin': origin, 'entry': entry, 'text': text[:80], 'outcome': outcome}
                 if (outcome != 'accepted' and ctx.rng.random() < 0.0005) else None)


ALL_ENTRIES = ('parse', 'parse_comments', 'lexer', 'lexer_comments')


def run(ctx):
    steps = Steps(ctx).install()
    rng = ctx.rng
    try:
        # exhaustive short character strings (partitioned)
        k = ctx.pick(3, 4)
        idx = 0
        complete = True
        for L in range(0, k + 1):
            for combo in itertools.product(CHAR_ALPHABET, repeat=L):
                idx += 1
                if idx % ctx.nshards != ctx.shard:
                    continue
                text = ''.join(combo)
                check(ctx, steps, text, 'enum', ('parse',) if L >= 3 else ALL_ENTRIES)
                if not (idx & 0x3ff) and ctx.time_left() < ctx.budget_s * 0.45:
                    complete = False
                    break
            if not complete:
                break
        ctx.extra['enumeration_complete'] = complete
        ctx.extra['enumeration_length'] = k
        ctx.extra['enumeration_alphabet_size'] = len(CHAR_ALPHABET)

        # escape sequences in identifiers that are well formed but stand for a character that may not appear
        # there, or are malformed, at every position of a name and on later lines (the message has to point at them)
        if ctx.shard == 1 % ctx.nshards:
            bad = ['\\u0020', '\\u0030', '\\u005c', '\\u002e', '\\u2028', '\\u00zz', '\\u12', '\\x41', '\\', '\\u{61}',
                   '\\U0061']
            for esc in bad:
                for name in ('%s', 'a%s', 'a%sb', 'ab1%s', '\\u0061%s', 'a%s\\u0062', '$_%sx'):
                    if name == '%s' and esc == '\\u0030':
                        pass
                    for ctxt in ('%s', 'x = %s;', 'var y;\n  %s = 1', 'a.%s', '/* c\n */ f(%s)', '({%s: 1})',
                                 'x\u2028%s', '"s\\\n" + %s'):
                        check(ctx, steps, ctxt % (name % esc), 'identifier_escape', ('parse', 'lexer'))
                        ctx.hit('identifier_escape')

        # syntax of other languages and tools that a lenient front end might try to skip (hashbang line, HTML comment
        # delimiters, decorators, template quotes ...): as the whole input, with each kind of line end after it, in front of
        # and behind a program, and all the escape spellings of the shared identifier family, string escapes included
        if ctx.shard == 3 % ctx.nshards:
            from vk.mon.c06 import FOREIGN
            for f in FOREIGN + ['#!/usr/bin/env node --flag', '#!\t', '#!#!', '-->\t', '<!---->']:
                for text in [f, ' ' + f, f + ' '] + [t for lt in ('\n', '\r', '\r\n', '\u2028', '\u2029') for t in (
                        f + lt, f + lt + 'x = 1', 'x = 1' + lt + f, f + lt + f, lt + f)]:
                    check(ctx, steps, text, 'foreign_syntax', ('parse', 'lexer'))
                    ctx.hit('foreign_syntax')
        if ctx.shard == 4 % ctx.nshards:
            for k, text in enumerate(work.identifier_escape_texts()):
                if k % 3 == ctx.seed % 3:
                    check(ctx, steps, text, 'identifier_escape_shared', ('parse', 'lexer'))
        if ctx.shard == 5 % ctx.nshards:
            for k, text in enumerate(work.string_escape_texts()):
                check(ctx, steps, text, 'string_escape', ('parse', 'lexer'))

        # pathological shapes (shard 0 .. 3 share them)
        shapes = [
            ('nested_parens', lambda n: '(' * n + 'a' + ')' * n), ('nested_brackets', lambda n: '[' * n + ']' * n),
            ('nested_braces', lambda n: '{' * n + '}' * n), ('open_parens', lambda n: '(' * n),
            ('close_parens', lambda n: ')' * n), ('long_sum', lambda n: 'a' + '+a' * n),
            ('many_statements', lambda n: 'a=1;' * n), ('many_newlines', lambda n: 'a\n' * n),
            ('unary_chain', lambda n: '-' * n + 'a'), ('slashes', lambda n: '/' * n),
            ('long_string', lambda n: '"' + 'x' * n + '"'), ('long_comment', lambda n: '/*' + '*' * n + '/'),
            ('unterminated_comment', lambda n: '/*' + 'x' * n), ('backslashes', lambda n: '"' + '\\' * n),
            ('new_chain', lambda n: 'new ' * n + 'a'), ('dots', lambda n: 'a' + '.b' * n),
            ('elisions', lambda n: '[' + ',' * n + ']'), ('nested_functions', lambda n: 'function f(){' * n + '}' * n),
            ('ternaries', lambda n: 'a?b:' * n + 'c'), ('if_else_chain', lambda n: 'if(a)b;else ' * n + 'c'),
        ]
        # long runs of separators between two tokens, inside a call, at the start and at the end
        seps = [('blank_lines', '\n'), ('crlf_lines', '\r\n'), ('ls_lines', '\u2028'), ('blanks', ' '), ('tabs_nbsp', '\t\xa0'),
                ('line_comments', '//c\n'), ('empty_line_comments', '//\n'), ('block_comments', '/**/'),
                ('multiline_block_comments', '/*\n*/'), ('mixed', ' /* c */ // d\n\t')]
        for sname, u in seps:
            shapes.append(('run_between:' + sname, lambda n, u=u: 'var a=1;' + u * n + 'a=2;'))
            shapes.append(('run_in_call:' + sname, lambda n, u=u: 'f(' + u * n + 'a' + u * n + ')'))
            shapes.append(('run_at_ends:' + sname, lambda n, u=u: u * n + 'a' + u * n))
            shapes.append(('run_before_error:' + sname, lambda n, u=u: 'a = (' + u * n + ';'))
        sizes = ctx.pick([10, 300, 3000], [10, 300, 3000, 10000, 60000])
        for i, (name, f) in enumerate(shapes):
            if i % ctx.nshards != ctx.shard:
                continue
            for n in sizes:
                check(ctx, steps, f(n), 'shape:' + name,
                      ('parse', 'parse_comments', 'lexer_comments') if name.startswith('run_') else ('parse', 'lexer'))
                ctx.hit('shape')
        # truncations and corruptions
        def opts_fn(i, r):
            return jsgen.Opts(clean=False, unicode_idents=(i % 3 == 0), string_continuations=(i % 2 == 0))
        progs = work.Programs(ctx, ctx.per_shard(60, 1500), opts_fn=opts_fn, valid_only=False)
        for text, meta in progs:
            if len(text) > 400 and meta['origin'] == 'corpus':
                cuts = sorted(set(rng.randrange(len(text)) for _ in range(40)))
            else:
                cuts = range(len(text))
            for c in cuts:
                check(ctx, steps, text[:c], 'truncation',
                      ALL_ENTRIES if c % 7 == 0 else ('parse', 'parse_comments') if c % 2 else ('parse',))
            for _ in range(ctx.pick(12, 40)):
                check(ctx, steps, jsgen.mutate_chars(text, rng), 'corruption',
                      ('parse', 'lexer_comments') if rng.random() < 0.3 else ('parse',))
            if ctx.out_of_time():
                break
        progs.report()

        # random strings over the full Unicode range
        for i in range(ctx.per_shard(300, 6000)):
            n = rng.randint(1, 12)
            chars = []
            for _ in range(n):
                r = rng.random()
                if r < 0.4:
                    chars.append(rng.choice(CHAR_ALPHABET))
                elif r < 0.7:
                    chars.append(chr(rng.randrange(0x20, 0x3000)))
                elif r < 0.85:
                    chars.append(chr(rng.randrange(0x3000, 0x10000)))
                elif r < 0.95:
                    chars.append(chr(rng.randrange(0x10000, 0x110000)))
                else:
                    chars.append(chr(rng.randrange(0x0, 0x20)))
            check(ctx, steps, ''.join(chars), 'random_unicode', ALL_ENTRIES if i % 4 == 0 else ('parse',))
            if not (i & 0x7f) and ctx.out_of_time():
                break

        ctx.extra['max_steps_per_char__max'] = round(steps.max_ratio, 3)
        if ctx.shard == 0:
            blowup_probe(ctx)
    finally:
        steps.remove()


# ---------------------------------------------------------------------------
# bounded progress: "either parses or raises" includes "within a sane time".  Repetitions of units that a
# backtracking pattern can match in several ways make the lexer's regular expressions exponential; the work
# happens inside one C call, where neither the step hook nor a signal can interrupt it, so the probe runs in a
# child process that escalates the repetition count itself and stops at the first slow parse.

BLOWUP_LIMIT_S = 2.0        # CPU seconds for an input of at most ~1300 characters (normal: milliseconds)
BLOWUP_COUNTS = [6, 8, 10, 12, 14, 16, 18, 20, 22, 24, 26, 28, 30, 40, 80, 160, 320]


def blowup_inputs():
    esc = ['\\00', '\\0', '\\12', '\\1', '\\7', '\\377', '\\x41', '\\u0041', '\\\n', '\\\r\n', 'a', '\\a', '\\8',
           '\\u2028', '\\\\']
    out = []
    for q, other in (('"', "'"), ("'", '"')):
        for u in esc + [other, '\\' + q]:
            out.append(('string%s:%s' % (q, u), q, u, ''))
            out.append(('string%s:%s:closed_after_bad_escape' % (q, u), q, u, '\\x' + q))
    for u in ['[a]', '\\/', '(a)', '[\\]]', 'a*', '[/]', '\\\\', '(?:a|b)', '[^/]', 'a', '[[]', '\\[', '[a-z]+']:
        out.append(('regex:' + u, 'x=/', u, ''))
        out.append(('regex:' + u + ':open_class', 'x=/', u, '['))
    for u in ['*', '* ', '/*', 'x', '*/*', '**/ /*', '\n*']:
        out.append(('block_comment:' + u, '/*', u, ''))
    for u in ['a\\u0061', '\\u0061', 'a1', 'x\u0301', '\\u00e9\u0301', '$_']:
        out.append(('identifier:' + u, '', u, '\\u0020'))
    for u in ['1e1', '0x1', '1.', '.1', '1e+', '00', '0.']:
        out.append(('number:' + u, '', u, ''))
    for u in ['//', '/**/', '<!--', ' \t', '\n', '\u2028', '\r\n']:
        out.append(('separators:' + u, 'a', u, '"'))
    for u in ['get ', 'set\n', 'get/**/', 'get "a"', 'set 1']:
        out.append(('accessor_lookahead:' + u, '({', u, ''))
    for u in ['return\n', 'break//\n', 'continue/**/\n', 'throw /*\n*/']:
        out.append(('restricted_lookahead:' + u, '', u, ''))
    # runs of separators between a token that arms a look-ahead (get / set, restricted keywords, anything)
    # and a token that makes it fail
    for pre in ['x = {get', 'o.set', 'get', 'x = {a: set', 'function f(){ return', 'for(;;){ continue', 'a', 'x = 1', '}', 'a.b']:
        for u in [' ', '\n', '\t\xa0', '/**/', '//\n', ' \n']:
            for suf in [': 1}', '(1);', ';', '= 2', '"']:
                out.append(('separator_run:%s:%s:%s' % (pre, u, suf), pre, u, suf))
    return out


BLOWUP_CHILD = r'''
import json, sys, time
sys.path.insert(0, %(verif)r)
from vk import boot
boot.pin(%(root)r)
from calmjs.parse.parsers.es5 import parse
from vk.mon import c12
parse('a')
slow = 0
t_start = time.monotonic()
for label, prefix, unit, suffix in c12.blowup_inputs():
    if slow >= 4 or time.monotonic() - t_start > 100:
        break       # enough witnesses, or enough time spent: what was probed is reported
    for n in c12.BLOWUP_COUNTS:
        text = prefix + unit * n + suffix
        if len(text) > 1400:
            break
        print(json.dumps(['START', label, n, text]))
        sys.stdout.flush()
        t0 = time.process_time()
        try:
            parse(text)
            outcome = 'accepted'
        except Exception as e:
            outcome = type(e).__name__
        dt = time.process_time() - t0
        print(json.dumps([label, n, len(text), round(dt, 4), outcome, text if dt > c12.BLOWUP_LIMIT_S else '']))
        sys.stdout.flush()
        if dt > c12.BLOWUP_LIMIT_S:
            slow += 1
            break
'''


def blowup_probe(ctx):
    import json
    import os
    import subprocess
    import sys
    from vk import boot
    code = BLOWUP_CHILD % {'verif': os.path.dirname(os.path.dirname(os.path.dirname(os.path.abspath(__file__)))),
                           'root': os.environ[boot.ENV_SCRATCH]}
    try:
        # below what is left of the shard's wall-clock watchdog (vk/run.py: 2.5 x budget + 120 s)
        import time
        left = ctx.budget_s * 2.5 + 120 - (time.monotonic() - ctx.t0) - 20
        r = subprocess.run([sys.executable, '-c', code], capture_output=True, text=True, timeout=max(45, min(300, left)))
        lines, timed_out = r.stdout.split('\n'), False
        if r.returncode != 0:
            raise HarnessBroken('C12 blow-up probe child failed: %s' % r.stderr[-400:])
    except subprocess.TimeoutExpired as e:
        lines, timed_out = (e.stdout.decode() if isinstance(e.stdout, bytes) else (e.stdout or '')).split('\n'), True
    worst = 0.0
    labels = set()
    started = None
    for line in lines:
        if not line.strip():
            continue
        rec = json.loads(line)
        if rec[0] == 'START':
            started = rec
            continue
        started = None
        label, n, length, dt, outcome, text = rec
        labels.add(label)
        worst = max(worst, dt)
        ctx.hit('blowup_probe')
        ctx.case(('blowup', label, n), outcome != 'accepted')
        if dt > BLOWUP_LIMIT_S:
            ctx.violation('C12:no_result_in_bounded_time:%s' % label.split(':')[0], {'text': text, 'entry': 'timed'},
                          'parse() needed %.1f CPU seconds for this input of %d characters (%s repeated %d times); the '
                          'same shape with fewer repetitions took milliseconds' % (dt, length, label, n))
    ctx.extra['blowup_labels_probed__max'] = len(labels)
    ctx.extra['blowup_worst_cpu_seconds__max'] = worst
    if timed_out:
        ctx.note('the blow-up probe child did not finish within its wall-clock watchdog; what it reported is kept')
        ctx.count('blowup_probe_watchdog')
        if started is not None:
            # the parse that was running: decide on CPU time, not on the wall clock - a fresh child with a CPU limit
            _, label, n, text = started
            one = ('import sys, json; sys.path.insert(0, %r); from vk import boot; boot.pin(%r); '
                   'from calmjs.parse.parsers.es5 import parse\n'
                   'try:\n    parse(json.loads(%r))\nexcept Exception:\n    pass\n') % (
                       os.path.dirname(os.path.dirname(os.path.dirname(os.path.abspath(__file__)))),
                       os.environ[boot.ENV_SCRATCH], json.dumps(text))

            def limit():
                import resource
                resource.setrlimit(resource.RLIMIT_CPU, (20, 20))
            try:
                r2 = subprocess.run([sys.executable, '-c', one], capture_output=True, text=True, timeout=180, preexec_fn=limit)
                killed = r2.returncode < 0
            except subprocess.TimeoutExpired:
                killed = None
            ctx.hit('blowup_probe')
            if killed:
                ctx.violation('C12:no_result_in_bounded_time:%s' % label.split(':')[0], {'text': text, 'entry': 'timed'},
                              'parse() used more than 20 CPU seconds on this input of %d characters (%s repeated %d '
                              'times) and was stopped by a CPU limit' % (len(text), label, n))
            elif killed is None:
                ctx.count('blowup_probe_confirmation_inconclusive')


def replay(ctx, witness):
    if witness.get('entry') == 'timed':
        import time
        from calmjs.parse.parsers.es5 import parse
        t0 = time.process_time()
        try:
            parse(witness['text'])
        except Exception:
            pass
        dt = time.process_time() - t0
        ctx.case(('blowup', witness['text']), True)
        if dt > BLOWUP_LIMIT_S:
            ctx.violation('C12:no_result_in_bounded_time:replay', witness, 'parse() needed %.1f CPU seconds' % dt)
        return
    steps = Steps(ctx).install()
    try:
        check(ctx, steps, witness['text'], 'replay', (witness.get('entry', 'parse'),))
    finally:
        steps.remove()


def canary(ctx, spec):
    sub = type(ctx)(ctx.prop, ctx.tier, ctx.seed, 0, 1, 30)
    steps = Steps(sub).install()
    try:
        check(sub, steps, spec['text'], 'canary', (spec.get('entry', 'parse'),))
    finally:
        steps.remove()
    return next(iter(sub.viol_count), None)

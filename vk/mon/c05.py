"""
C05 - every '/' is read as division or regex start as the grammar dictates.

Token-stream monitor: a wrapper on ``Lexer._token`` records every token handed
to the parser ("the last token delivered at an offset wins" resolves the
p_error re-lexing).  For each offset at which the reference parser consumed a
token starting with '/', the observed class (DIV / DIVEQUAL / REGEX) must be
the one the reference used there (its goal symbol came from the grammar
position, not from a previous-token heuristic).
"""

import itertools

from vk.boot import HarnessBroken
from vk import work, probe
from vk.gen import jsgen
from vk.ddmin import minimise_text

LEVEL = 'exploration'
RULE = ('product workload: (preceding construct) x (layout between it and the slash) x (following text), each '
        'embedded in a statement context, the same statements as the body of a function standing in ten kinds of '
        'bracketed operand position, plus generated programs and the corpus; a case = one text; '
        'non-trivial = the reference parser accepts it and it has at least one token starting with "/" '
        '(outside comments and strings).')
ASSUMPTIONS = ['refjs decides the lexical goal from the grammar position (InputElementRegExp exactly where a '
               'PrimaryExpression may start); only inputs refjs accepts are judged']
BUDGET_S = {'quick': 75, 'thorough': 900}
REQUIRED_HITS = ['Lexer._token', 'slash_compared', 'embedded_product']
FLOOR = {'quick': 2000, 'thorough': 8000}

PRE = [
    ('if_header', 'if (a)@%'), ('for_header', 'for (;;)@%'), ('forin_header', 'for (k in o)@%'),
    ('while_header', 'while (a)@%'), ('with_header', 'with (a)@%'), ('nested_header', 'if (a) if (b)@%'),
    ('header_nested_parens', 'if ((a)(b))@%'), ('call_rparen', 'f(a)@%'), ('group_rparen', 'x = (a)@%'),
    ('new_rparen', 'x = new F(a)@%'), ('rbracket', 'x = a[0]@%'), ('array_literal', 'x = [1]@%'),
    ('block_rbrace', '{}@%'), ('block_rbrace2', '{ a; }@%'), ('object_rbrace', 'x = {}@%'),
    ('object_rbrace2', 'x = {a: 1}@%'), ('funcexpr_rbrace', 'x = function(){}@%'),
    ('switch_rbrace', 'switch (a) {}@%'), ('try_rbrace', 'try {} finally {}@%'), ('if_block_rbrace', 'if (a) {}@%'),
    ('else_block_rbrace', 'if (a) {} else {}@%'), ('identifier', 'x = a@%'), ('number', 'x = 1@%'), ('number_dot', 'x = 1.@%'),
    ('string', 'x = "s"@%'), ('regex', 'x = /r/@%'), ('regex_flags', 'x = /r/g@%'), ('this', 'x = this@%'),
    ('true', 'x = true@%'), ('null', 'x = null@%'), ('postfix_inc', 'x = a++@%'), ('postfix_dec', 'x = a--@%'),
    ('keyword_property', 'x = a.return@%'), ('keyword_property_if', 'x = a.if@%'), ('property', 'x = a.b@%'),
    ('assign', 'x =@%'), ('plus', 'x = a +@%'), ('minus', 'x = a -@%'), ('mult', 'x = a *@%'), ('div', 'x = a /@%'),
    ('mod', 'x = a %@%'), ('lt', 'x = a <@%'), ('gt', 'x = a >@%'), ('eq', 'x = a ==@%'), ('seq', 'x = a ===@%'),
    ('and', 'x = a &&@%'), ('or', 'x = a ||@%'), ('band', 'x = a &@%'), ('bor', 'x = a |@%'), ('xor', 'x = a ^@%'),
    ('shl', 'x = a <<@%'), ('shr', 'x = a >>>@%'), ('pluseq', 'x +=@%'), ('diveq', 'x /=@%'), ('not', 'x = !@%'),
    ('bnot', 'x = ~@%'), ('unary_minus', 'x = -@%'), ('prefix_inc', 'x = ++@%'), ('typeof', 'x = typeof@%'),
    ('void', 'void@%'), ('delete', 'delete@%'), ('new', 'x = new@%'), ('in', 'x = a in@%'),
    ('instanceof', 'x = a instanceof@%'), ('return', 'function f(){ return@% }'), ('throw', 'throw@%'),
    ('case', 'switch (a) { case@% : b }'), ('else', 'if (a) b; else@%'), ('do', 'do@% ; while (a)'),
    ('lparen', 'x = (@% )'), ('call_lparen', 'f(@% )'), ('lbracket', 'x = [@% ]'), ('comma', 'f(a,@% )'),
    ('question', 'x = a ?@% : b'), ('colon', 'x = a ? b :@%'), ('object_colon', 'x = {a:@% }'),
    ('lbrace', '{@% }'), ('semicolon', 'a;@%'), ('start', '@%'), ('label_colon', 'l:@%'),
    # '++' / '--' after a line terminator are prefix operators (7.9.1): a regex follows
    ('prefix_dec', 'x = --@%'), ('lt_prefix_inc', 'a\n++@%'), ('lt_prefix_dec', 'a\n--@%'), ('block_lt_prefix_inc', '{}\n++@%'),
    ('start_lt_prefix_dec', '\n--@%'), ('comment_lt_prefix_inc', 'a /*\n*/ ++@%'), ('ls_prefix_dec', 'x = 1\u2028--@%'),
    ('header_lt_prefix_inc', 'if (a)\n++@%'), ('postfix_lt_prefix', 'a++\n++@%'),
    ('case_colon', 'switch (a) { case 1:@% }'), ('funcdecl_rbrace', 'function f(){}@%'),
    ('func_body_start', 'function f(){@% }'), ('var_init', 'var v =@%'), ('for_init', 'for (@% ;;) ;'),
    ('for_cond', 'for (;@% ;) ;'), ('for_count', 'for (;;@% ) ;'), ('comma_expr', 'a,@%'),
    # a '}' in front of which a semicolon was inserted: of a function expression (division follows), of an accessor
    # body inside an object literal, of a block / declaration (a new statement follows)
    ('funcexpr_body_asi', 'x = function(){ return 6 }@%'), ('funcexpr_body_asi_call', 'var a = function () { b() }@%'),
    ('getter_body_asi', 'x = {get a(){ return 1 }}@%'), ('block_asi', '{ a }@%'), ('funcdecl_body_asi', 'function f(){ a }@%'),
    ('if_block_asi', 'if (a) { b }@%'), ('funcexpr_nested_asi', 'x = function(){ if (a) { b } }@%'),
    ('object_in_block_asi', '{ x = {} }@%'), ('funcexpr_break_asi', 'x = function(){ for(;;) break }@%'),
    ('catch_rbrace', 'try {} catch (e) {}@%'), ('getter_rbrace', 'x = {get a(){}}@%'), ('paren_ident', '(a)@%'),
]
EMBED = [('called_function_expression', '(function(){ # })()'), ('callback_argument', 'each(xs, function(){ # })'),
         ('array_element', 'var m = [function(){ # }, 1]'), ('object_member', 'o = {m: function(){ # }, n: 1}'),
         ('in_if_header', 'if ((function(){ # })()) ;'), ('conditional_operand', 'x = a ? function(){ # } : b'),
         ('in_for_header', 'for (var i = (function(){ # })(); ;) ;'), ('deep', 'f((g([{k: (function(){ # })}])))'),
         ('getter_body', 'o = {get p(){ # }}'), ('declaration', 'function outer(){ # }')]
LAYOUT = [('none', ''), ('space', ' '), ('tab', '\t'), ('nbsp', '\xa0'), ('LF', '\n'), ('CRLF', '\r\n'),
          ('LS', '\u2028'), ('block_comment', ' /* c */ '), ('line_comment', ' // c\n'),
          ('multiline_comment', ' /* c\n */ '), ('vt', '\x0b')]
FOLLOW = ['/re/.test(x)', '/ 2 / 3', '/=/.exec(s)', '/= 2', '/ a /g', '/[/]/', '/re/', '/a/g / 2', '/ /', '/\\//',
          # where a regex literal *ends* decides what the next '/' is: classes that are empty, that hold ']' or '/'
          '/[^]/.exec(s)[0] /i / 2', '/[]/.test(s) ? a[0] / 2 : 1', '/[]]/ / 2', '/[^]]/g / b[0] / c', '/[\\]/]/ / 2 / [1]',
          '/a/x / 2', '/a/g2.test(s)', '/re/Gi / b / c']


def observed_classes(log):
    """offset -> type of the last '/'-token delivered at that offset"""
    out = {}
    for typ, pos in log:
        out[pos] = typ
    return out


def tree_slashes(tree):
    """offset -> 'regex' | 'div' as recorded in the tree the parser returned:
    Regex nodes and the operator position of '/' and '/=' nodes"""
    from vk.tree import reflect_walk, kind_of
    out = {}
    for path, n in reflect_walk(tree):
        k = kind_of(n)
        if k == 'Regex':
            out[n.lexpos] = 'regex'
        elif k in ('BinOp', 'Assign') and getattr(n, 'op', None) in ('/', '/='):
            out[n.lexpos] = 'div'
    return out


def judge(res, classes, tree=None, impl_err=None):
    """res: refjs Result (accepted); classes: {offset: token type} observed;
    tree: the implementation's tree when it accepted"""
    if tree is not None:
        ts = tree_slashes(tree)
        if ts != res.slash:
            for off in sorted(set(ts) | set(res.slash)):
                if ts.get(off) != res.slash.get(off):
                    return ('C05:tree_has_%s_expected_%s' % (ts.get(off), res.slash.get(off)),
                            "at offset %d the tree records %s, the grammar dictates %s" % (
                                off, ts.get(off), res.slash.get(off)), off)
    elif impl_err is not None and res.slash:
        return ('C05:rejects_text_with_slash', 'the grammar derives this text (slashes: %r) but it was rejected: %s'
                % (sorted(res.slash.items()), impl_err), min(res.slash))
    for off, goal in sorted(res.slash.items()):
        typ = classes.get(off)
        if typ is None:
            continue
        got = 'regex' if typ == 'REGEX' else 'div'
        if got != goal:
            return ('C05:read_as_%s_expected_%s' % (got, goal),
                    "the '/' at offset %d was delivered as %s; the grammar dictates %s there" % (off, typ, goal), off)
    return None


def selfcheck(ctx):
    class Res(object):
        slash = {4: 'regex', 9: 'div'}
    planted = [judge(Res(), {4: 'DIV'}), judge(Res(), {9: 'REGEX'}), judge(Res(), {4: 'DIVEQUAL', 9: 'DIV'}),
               judge(Res(), {}, None, 'Unexpected token')]
    if not all(planted) or judge(Res(), {4: 'REGEX', 9: 'DIVEQUAL'}) is not None:
        raise HarnessBroken('C05 oracle failed on planted observations')
    return 5


class TokenLog(object):
    def __init__(self, ctx):
        self.ctx = ctx
        self.log = []
        self.backtracks = 0

    def install(self):
        from calmjs.parse.lexers.es5 import Lexer
        ctx = self.ctx

        def after(snap, result, args, kwargs):
            ctx.hit('Lexer._token')
            if result is not None and result.type in ('DIV', 'DIVEQUAL', 'REGEX'):
                self.log.append((result.type, result.lexpos))

        def after_bt(snap, result, args, kwargs):
            ctx.hit('backtracked_token')
        self.recs = [probe.wrap(Lexer, '_token', after=after),
                     probe.wrap(Lexer, 'backtracked_token', after=after_bt)]
        return self

    def remove(self):
        for r in self.recs:
            r.remove()


def check(ctx, tl, text, key, origin, meta=None):
    tl.log = []
    s = work.both(text)
    classes = observed_classes(tl.log)
    if s.ref is None:
        ctx.case(key, False)
        ctx.count(origin + ':ref_rejects')
        return
    if work.uncertain(s.ref, s.ref_err) or work.skip_known(ctx, text, s.ref):
        ctx.case(key, False)
        return
    nslash = len(s.ref.slash)
    ctx.case(key, nslash > 0, sample={'origin': origin, 'text': text[:160],
                                      'slashes': {str(k): v for k, v in sorted(s.ref.slash.items())}}
             if (nslash and ctx.rng.random() < 0.004) else None)
    if not nslash:
        return
    ctx.hit('slash_compared', len([o for o in s.ref.slash if o in classes]))
    if meta:
        for off, goal in s.ref.slash.items():
            ctx.count('decision:%s:%s' % (meta, goal))
    v = judge(s.ref, classes, s.tree, s.impl_err)
    if v:
        mech, detail, off = v

        def failing(t):
            tl.log = []
            try:
                s2 = work.both(t)
            except RecursionError:
                return False
            if s2.ref is None or work.uncertain(s2.ref, s2.ref_err) or work.skip_known(ctx, t, s2.ref):
                return False
            j = judge(s2.ref, observed_classes(tl.log), s2.tree, s2.impl_err)
            return j is not None and j[0] == mech
        small = text
        if len(text) > 14 and ctx.viol_count[mech] < 2:
            try:
                small = minimise_text(text, failing, 250)
            except Exception:
                small = text
        ctx.violation(mech, {'text': small, 'original': text if small != text else None},
                      '%s\ninput: %r' % (detail, small))


def run(ctx):
    tl = TokenLog(ctx).install()
    try:
        idx = 0
        for (pname, pre), (lname, lay), fol in itertools.product(PRE, LAYOUT, FOLLOW):
            idx += 1
            if idx % ctx.nshards != ctx.shard:
                continue
            if ctx.tier == 'quick' and (idx // ctx.nshards) % 3 and lname not in ('none', 'space', 'LF'):
                continue
            text = pre.replace('@', lay).replace('%', fol)
            check(ctx, tl, text, text, 'product', meta='%s:%s' % (pname, lname))
            if ctx.out_of_time():
                break
        ctx.extra['product_dimensions'] = {'preceding_constructs': len(PRE), 'layouts': len(LAYOUT),
                                           'following_texts': len(FOLLOW)}

        # the same statements as the body of a function that is itself an operand somewhere inside parentheses,
        # brackets, braces of an object literal or a statement header (whatever the lexer keeps about enclosing
        # brackets must not leak into the body)
        idx = 0
        for (pname, pre), (lname, lay), fol, (ename, emb) in itertools.product(
                PRE, (LAYOUT[0], LAYOUT[4], LAYOUT[7]), (FOLLOW[0], FOLLOW[1], FOLLOW[3], FOLLOW[5]), EMBED):
            idx += 1
            if idx % ctx.nshards != ctx.shard:
                continue
            if ctx.tier == 'quick' and (idx // ctx.nshards) % 4:
                continue
            text = emb.replace('#', pre.replace('@', lay).replace('%', fol))
            check(ctx, tl, text, text, 'embedded_product', meta='%s:%s:%s' % (pname, lname, ename))
            ctx.hit('embedded_product')
            if not (idx & 0xff) and ctx.time_left() < ctx.budget_s * 0.4:
                ctx.note('embedded product workload truncated by time in shard %d' % ctx.shard)
                break

        from vk.gen import products
        for idx, (key, text) in enumerate(products.lexical_products()):
            if '/' not in text or idx % ctx.nshards != ctx.shard or (ctx.tier == 'quick' and (idx // ctx.nshards) % 2):
                continue
            check(ctx, tl, text, text, 'lexical_product')
            ctx.hit('lexical_product')

        def opts_fn(i, r):
            return jsgen.Opts(clean=(i % 2 == 0), unicode_idents=(i % 4 == 1), string_continuations=(i % 3 == 0))
        progs = work.Programs(ctx, ctx.per_shard(250, 5000), opts_fn=opts_fn)
        for text, meta in progs:
            check(ctx, tl, text, text, meta['origin'])
            if ctx.out_of_time():
                break
        progs.report()
    finally:
        tl.remove()


def _one(ctx, text):
    tl = TokenLog(ctx).install()
    try:
        s = work.both(text)
        if s.ref is None:
            return None
        return judge(s.ref, observed_classes(tl.log), s.tree, s.impl_err)
    finally:
        tl.remove()


def replay(ctx, witness):
    for key in ('text', 'original'):
        t = witness.get(key)
        if t:
            v = _one(ctx, t)
            if v:
                ctx.violation(v[0], {'text': t}, v[1] + '\ninput: %r' % t)


def canary(ctx, spec):
    v = _one(ctx, spec['text'])
    return v[0] if v else None

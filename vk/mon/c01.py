"""
C01 - pretty-printed output parses back to the same tree and is a fixpoint.

Round-trip monitor around the real ``parse`` and ``pretty_print``:
T1 = parse(t), O1 = pretty(T1, s), T2 = parse(O1), O2 = pretty(T2, s);
canon(T1) == canon(T2) (positions ignored, spellings exact), O1 == O2 bytewise,
and the reference parser reads O1 as the same tree.
"""

from vk.boot import HarnessBroken
from vk import work, printing
from vk.gen import jsgen, products
from vk.tree import first_diff
from vk.ddmin import minimise_text

LEVEL = 'exploration'
RULE = ('inputs: corpus, Annex A derivations in 5 layouts (one alternative forced per case), and the systematic '
        'products operator x left-operand class x right-operand class, member/call/new on every primary kind, '
        'keyword x following token class, every statement kind as body of if/else/loops/labels/with (quick: every '
        '6th binary product); configurations: indent strings "", " ", two spaces, four spaces, TAB, " TAB"; '
        'twelve programs whose indented lines start with every kind of token x each of the 21 ES5 white-space characters as the '
        'indentation (alone, after a blank, doubled). '
        'every second case is first printed by a printer object that has an abandoned and a completed walk behind it (the re-print by a fresh one). A case = (text, indent); non-trivial = at least 8 tokens and at least 2 node kinds; distinct by (text, indent).')
ASSUMPTIONS = ['inputs the real parser rejects are skipped (C03/C04 report those); "any conforming ES5 parser" is '
               'checked with refjs only for inputs refjs itself reads as the same tree (else input_not_es5)',
               'nesting depth is bounded (RecursionError in the recursive printers is a resource limit)']
BUDGET_S = {'quick': 120, 'thorough': 900}
REQUIRED_HITS = ['pretty_print', 'reparse', 'fixpoint_compared', 'reference_reread', 'used_printer', 'deep_chain', 'white_space_indent']
FLOOR = {'quick': 3000, 'thorough': 40000}

INDENTS = ['  ', '\t', '', ' ', '    ', ' \t']


def judge(ci, o1, c2, err2, o2, ref_c, ref_err, es5):
    """oracle over one observed round trip; returns (mech, detail) or None"""
    if c2 is None:
        return ('C01:output_does_not_parse', 'pretty output is rejected by the parser itself: %s' % err2)
    if c2 != ci:
        return ('C01:tree_changed', 'parse(pretty(T)) differs from T: %s' % first_diff(ci, c2))
    if o2 != o1:
        i = next((k for k, (a, b) in enumerate(zip(o1, o2)) if a != b), min(len(o1), len(o2)))
        return ('C01:not_a_fixpoint', 'pretty(parse(O1)) != O1 at byte %d: %r vs %r' % (i, o1[max(0, i - 15):i + 15],
                                                                                       o2[max(0, i - 15):i + 15]))
    if es5:
        if ref_c is None:
            return ('C01:output_not_es5', 'a conforming ES5 parser rejects the pretty output: %s' % ref_err)
        if ref_c != ci:
            return ('C01:output_reads_differently',
                    'a conforming ES5 parser reads the pretty output as a different tree: %s' % first_diff(ci, ref_c))
    return None


WS_CHARS = ['\t', '\x0b', '\x0c', ' ', '\xa0', '\ufeff', '\u1680', '\u2000', '\u2001', '\u2002', '\u2003', '\u2004', '\u2005',
            '\u2006', '\u2007', '\u2008', '\u2009', '\u200a', '\u202f', '\u205f', '\u3000']
INDENT_PROBES = [
    'function f() { /re/.test(a); /=x/g.exec(b) }',
    'switch (a) { case 1: /x/g; break; default: /y/.test(z) }',
    'if (a) { ++b; --c; -d; +e; !f; ~g }',
    'x = { a: 1, get b() { return /x/ }, "c": [1, 2], 3: null };',
    'function f() { "use strict"; 1.5; .5e3; 0x1F; \'s\' }',
    'while (a) { (b); [c]; {d} ; }',
    'do { a in b; typeof c; new D; delete e.f; void 0; this; null; true } while (false)',
    'try { throw /re/ } catch (e) { debugger; } finally { var v = 1, w; }',
    'lbl: for (;;) { continue lbl; break lbl; }',
    'for (var i in o) { with (o) { i++ } if (i) return; else { function g() {} } }',
    'x = function () { return function () { return [ { k: /r/ } ] } };',
    'a = { b: { c: { d: /e/ } } }; { { { /f/ } } }',
]


def selfcheck(ctx):
    a = ('ES5Program', (('children', (('Number', (('value', '1'),)),)),))
    b = ('ES5Program', (('children', (('Number', (('value', '2'),)),)),))
    planted = [judge(a, '1;\n', None, 'boom', None, None, None, True),
               judge(a, '1;\n', b, None, '1;\n', a, None, True),
               judge(a, '1;\n', a, None, '1 ;\n', a, None, True),
               judge(a, '1;\n', a, None, '1;\n', None, 'x', True),
               judge(a, '1;\n', a, None, '1;\n', b, None, True)]
    if not all(planted) or judge(a, '1;\n', a, None, '1;\n', a, None, True) or \
            judge(a, '1;\n', a, None, '1;\n', None, 'x', False):
        raise HarnessBroken('C01 oracle failed on planted observations')
    return len(planted) + 2


def roundtrip(p, indent, history=False):
    from calmjs.parse.unparsers.es5 import pretty_print
    if history:
        # the statement holds for the output of any pretty printer object, also one that has an abandoned
        # and a completed walk behind it: the first print goes through such an object, the second through
        # a fresh one
        o1 = ''.join(chunk.text for chunk in printing.used_printer(indent)(p.tree))
    else:
        o1 = pretty_print(p.tree, indent_str=indent)
    t2, c2, err2 = printing.reparse(o1)
    o2 = pretty_print(t2, indent_str=indent) if t2 is not None else None
    ref_c = ref_err = None
    if p.es5:
        _, ref_c, ref_err = printing.ref_canon(o1)
    return o1, c2, err2, o2, ref_c, ref_err


def check(ctx, text, indents, origin, key=None):
    p = printing.prepare(ctx, text)
    if p is None:
        ctx.case((text, 'skipped'), False)
        return
    nontrivial = p.ntok >= 8 and len(p.kinds) >= 2
    for k in p.kinds:
        ctx.extra.setdefault('node_kinds_printed__set', set()).add(k)
    for indent in indents:
        history = bool((len(text) + len(indent)) & 1) if key is None else bool(key)
        if history:
            ctx.hit('used_printer')
        try:
            o1, c2, err2, o2, ref_c, ref_err = roundtrip(p, indent, history)
        except RecursionError:
            ctx.count('skipped:resource_limit')
            continue
        except Exception as e:
            # the printer itself failed on a program the parser accepted: there is no output to read back
            ctx.hit('pretty_print')
            ctx.case((text, indent), nontrivial)
            ctx.violation('C01:printer_raised:%s' % type(e).__name__, {'text': text, 'indent': indent, 'history': history},
                          'pretty printing raised %s: %s\ninput: %r\nindent: %r' % (type(e).__name__, str(e)[:200], text[:300], indent))
            break
        ctx.hit('pretty_print')
        ctx.hit('reparse')
        if o2 is not None:
            ctx.hit('fixpoint_compared')
        if p.es5:
            ctx.hit('reference_reread')
        ctx.case((text, indent), nontrivial,
                 sample={'origin': origin, 'indent': indent, 'text': text[:120], 'output': o1[:160]}
                 if (nontrivial and ctx.rng.random() < 0.002) else None)
        v = judge(p.ci, o1, c2, err2, o2, ref_c, ref_err, p.es5)
        if v:
            mech, detail = v

            def failing(t):
                p2 = printing.prepare(_Quiet(ctx), t)
                if p2 is None:
                    return False
                try:
                    r = roundtrip(p2, indent, history)
                except RecursionError:
                    return False
                j = judge(p2.ci, r[0], r[1], r[2], r[3], r[4], r[5], p2.es5)
                return j is not None and j[0] == mech
            small = text
            if len(text) > 12 and ctx.viol_count[mech] < 2:
                try:
                    small = minimise_text(text, failing, 200)
                except Exception:
                    small = text
            ctx.violation(mech, {'text': small, 'indent': indent, 'original': text if small != text else None,
                                 'history': history},
                          '%s\ninput: %r\nindent: %r%s' % (detail, small[:300], indent,
                                                          ' (printer object used before)' if history else ''))
            break


class _Quiet(object):
    """ctx stand-in used while minimising (no accounting)"""

    def __init__(self, ctx):
        self._suppressed = ctx._suppressed

    def count(self, *a, **k):
        pass


def run(ctx):
    rng = ctx.rng
    stride = ctx.pick(6, 1)
    idx = 0
    for key, text in products.all_products():
        idx += 1
        if idx % ctx.nshards != ctx.shard:
            continue
        if key[0] in ('binary', 'binary_paren') and (idx // ctx.nshards) % stride:
            continue
        check(ctx, text, [INDENTS[idx % 2]] if ctx.tier == 'quick' else [INDENTS[idx % len(INDENTS)], '  '],
              'product:' + key[0])
        if not (idx & 0x1ff) and ctx.time_left() < ctx.budget_s * 0.35:
            ctx.note('product workload truncated by time in shard %d' % ctx.shard)
            break

    def opts_fn(i, r):
        return jsgen.Opts(clean=(i % 2 == 0), unicode_idents=(i % 5 == 0), string_continuations=(i % 3 == 0))
    progs = work.Programs(ctx, ctx.per_shard(300, 8000), opts_fn=opts_fn)
    for i, (text, meta) in enumerate(progs):
        ind = INDENTS if (ctx.tier == 'thorough' or i % 5 == 0) else [INDENTS[i % len(INDENTS)], '  ']
        check(ctx, text, ind, meta['origin'])
        if ctx.out_of_time():
            break
    progs.report()
    # "every indentation string": each ES5 white-space character (7.2: TAB VT FF SP NBSP BOM and category Zs) as the
    # indentation, alone and next to a blank, in front of every kind of token that can start an indented line
    idx = 0
    for w in WS_CHARS:
        for ind in (w, ' ' + w, w + w):
            for text in INDENT_PROBES:
                idx += 1
                if idx % ctx.nshards == ctx.shard and (ctx.tier != 'quick' or ind != w + w or (idx // ctx.nshards) % 3 == 0):
                    ctx.hit('white_space_indent')
                    check(ctx, text, [ind], 'white_space_indent', key=0)
    # deep rather than wide (skipped where this interpreter's own stack is the limit: RecursionError is not a verdict)
    for k, (name, n, text) in enumerate(work.deep_chain_texts()):
        if k % ctx.nshards == ctx.shard:
            ctx.hit('deep_chain')
            check(ctx, text, ['  ', '\t'][k % 2:k % 2 + 1], 'deep_chain:' + name)
    if 'node_kinds_printed__set' in ctx.extra:
        ctx.extra['node_kinds_printed__set'] = sorted(ctx.extra['node_kinds_printed__set'])


def replay(ctx, witness):
    for key in ('text', 'original'):
        if witness.get(key):
            check(ctx, witness[key], [witness.get('indent', '  ')], 'replay', key=int(bool(witness.get('history'))))


def canary(ctx, spec):
    sub = type(ctx)(ctx.prop, ctx.tier, ctx.seed, 0, 1, 30)
    sub._suppressed = set()
    check(sub, spec['text'], [spec.get('indent', '  ')], 'canary')
    return next(iter(sub.viol_count), None)

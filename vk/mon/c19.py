"""
C19 - literal data in a program is extracted as the equal Python value.

Postcondition contract on the real ``ast_to_dict`` with ``json.loads`` as the
reference model: for a JSON text j that is also an ES5 literal, the dictionary
extracted from ``var n = j;`` / ``n = j;`` / the same inside a function must
hold, under n, a value equal (type-aware) to json.loads(j), and nothing else.
"""

import json
import random
import math

from vk.boot import HarnessBroken
from vk import probe

LEVEL = 'exploration'
RULE = ('values: seeded random JSON documents (nesting to depth 6, empty containers, duplicate and odd keys, strings '
        'with every JSON escape and raw non-ASCII / non-BMP text, numbers in every JSON spelling incl. negative, '
        'fractional, both exponent signs and cases, -0, huge and tiny), serialised with random JSON white space; 17 wide '
        'values (300-1500 members); 98 strings whose content is a word of JavaScript / Python / JSON as value, element, '
        'member and key; '
        'configurations {fold_ops off, on} x {ignore_errors off, on} x {var, assignment, nested in function}; a case = (json text, form, '
        'fold_ops); non-trivial = the value is a container, or a string with an escape, or a non-integer number; '
        'distinct by that triple.')
ASSUMPTIONS = ['json.loads of the standard library is the reference model; only spellings valid in both JSON and ES5 are '
               'generated (no U+2028/U+2029 raw in strings)']
BUDGET_S = {'quick': 90, 'thorough': 600}
REQUIRED_HITS = ['ast_to_dict', 'LiteralEval', 'GroupAsMap', 'GroupAsList', 'wide_value', 'word_string', 'ignore_errors', 'falsy_value']
FLOOR = {'quick': 5000, 'thorough': 60000}


def equal(a, b):
    """type-aware deep equality (1 != 1.0, True != 1; key order ignored)"""
    if type(a) is not type(b):
        return False
    if isinstance(a, dict):
        return set(a) == set(b) and all(equal(a[k], b[k]) for k in a)
    if isinstance(a, list):
        return len(a) == len(b) and all(equal(x, y) for x, y in zip(a, b))
    if isinstance(a, float):
        if math.isnan(a) or math.isnan(b):
            return math.isnan(a) and math.isnan(b)
        return a == b and math.copysign(1, a) == math.copysign(1, b)
    return a == b


def judge(form, result, expected):
    """oracle: result is what the real ast_to_dict returned"""
    if form in ('var', 'assign'):
        holder = result
    else:
        try:
            holder = result['f'][1]
        except Exception:
            return ('C19:function_shape', 'expected {"f": [[], {...}]}, got %r' % (result,))
        if set(result) != {'f'}:
            return ('C19:extra_entries', 'top-level entries besides f: %r' % sorted(map(str, result)))
    if not isinstance(holder, dict) or 'n' not in holder:
        return ('C19:name_missing', 'no entry for n in %r' % (holder,))
    if set(holder) != {'n'}:
        return ('C19:extra_entries', 'entries added besides n: %r' % sorted(k for k in map(str, holder) if k != 'n'))
    if not equal(holder['n'], expected):
        return ('C19:value_differs:%s' % classify(holder['n'], expected),
                'extracted %r, a JSON parser gives %r' % (holder['n'], expected))
    return None


def classify(got, exp, depth=0):
    """where / how the first difference arises (mechanism, not value)"""
    if type(got) is not type(exp):
        return 'type_%s_for_%s' % (type(got).__name__, type(exp).__name__)
    if isinstance(exp, dict):
        if set(got) != set(exp):
            only_got = sorted(set(got) - set(exp), key=repr)
            only_exp = sorted(set(exp) - set(got), key=repr)
            if len(only_got) == len(only_exp) and all(isinstance(k, str) for k in only_got):
                for g in only_got:
                    for e in only_exp:
                        c = classify(g, e, depth + 1)
                        if c.startswith('string:'):
                            return 'object_key_' + c
            return 'object_keys'
        for k in exp:
            if not equal(got[k], exp[k]):
                return classify(got[k], exp[k], depth + 1)
    if isinstance(exp, list):
        if len(got) != len(exp):
            return 'array_length'
        for x, y in zip(got, exp):
            if not equal(x, y):
                return classify(x, y, depth + 1)
    if isinstance(exp, str):
        # mechanism attribution for strings: which repair of the extracted value makes it equal?
        a = got.replace('\\/', '/')
        try:
            b = got.encode('utf-16', 'surrogatepass').decode('utf-16')
            ab = a.encode('utf-16', 'surrogatepass').decode('utf-16')
        except Exception:
            b = ab = None
        if a == exp:
            return 'string:solidus_escape_kept_backslash'
        if b == exp:
            return 'string:surrogate_pair_not_combined'
        if ab == exp:
            return 'string:solidus_and_surrogate_pair'
        return 'string'
    if isinstance(exp, (int, float)):
        return 'number'
    return 'other'


def selfcheck(ctx):
    planted = [judge('var', {'n': 1.0}, 1), judge('var', {'n': [1, [2]]}, [1, 2]), judge('var', {'n': 1, 'm': 2}, 1),
               judge('var', {}, 1), judge('function', {'f': [[], {'n': {'a': 1}}], 'g': 1}, {'a': 1}),
               judge('var', {'n': {'a': 1}}, {'a': 2}), judge('var', {'n': True}, 1), judge('var', {'n': 0.0}, -0.0)]
    ok = [judge('var', {'n': {'a': [1, 2.5, None]}}, {'a': [1, 2.5, None]}),
          judge('function', {'f': [[], {'n': 's'}]}, 's')]
    if not all(planted) or any(ok):
        raise HarnessBroken('C19 oracle failed on planted observations %r %r' % (planted, ok))
    return len(planted) + len(ok)


ESCAPES = ['\\"', '\\\\', '\\b', '\\f', '\\n', '\\r', '\\t', '\\u0041', '\\u00e9', '\\u4e2d', '\\u0000', '\\u001f',
           '\\u2028', '\\u007f',
           # escapes of single surrogate code units (legal in JSON and ES5; a JSON parser returns them as they are);
           # spelled so that a high one is never directly followed by a low one - that is a pair, see the findings
           '\\ud800x', 'x\\udfff', '\\udbff-', '.\\udc00',
           # an escaped backslash in front of what would be an escape
           '\\\\u0041', '\\\\n', '\\\\x41', '\\\\\\"']
RAW = ['a', 'Z', ' ', '\xe9', '\u4e2d', '\U0001f600', '/', "'", '{', '}', '[', ',', ':', '0', '-', 'true', 'null',
       '__proto__', 'constructor', '', '\x7f', '\xa0', '\ufeff']
NUMBERS = ['0', '-0', '1', '-1', '7', '10', '123456789', '9007199254740993', '-9007199254740993',
           '123456789012345678901234567890', '0.5', '-0.5', '1.0', '-0.0', '3.14159', '1e3', '1E3', '1e+3', '1e-3',
           '1E+3', '1E-3', '-1e3', '1.5e10', '2.5E-7', '1e400', '-1e400', '1e-400', '0e0', '0.0e-0', '100e-2',
           '1.7976931348623157e308', '5e-324', '0.1', '0.30000000000000004']
WS = ['', ' ', '  ', '\n', '\t', ' \n ', '\r\n']
KEYS = ['a', 'b', 'key', '', '__proto__', '0', '1', '1.5', 'true', 'a b', 'constructor', '\xe9', 'toString', 'n']


# strings whose *content* is a word that means something to JavaScript, to Python or to a converter
# (identifier-like content is where a value-based special case would bite; a string is a string)
WORDS = ['undefined', 'null', 'true', 'false', 'NaN', 'Infinity', '-Infinity', 'None', 'True', 'False', 'this',
         'arguments', 'eval', 'prototype', 'length', 'get', 'set', 'of', 'let', 'yield', 'async', 'await', 'static',
         '__class__', '__dict__', '__proto__', 'constructor', 'hasOwnProperty', 'valueOf', 'toString',
         '0', '-0', '-1', '1e3', '0x10', '010', '1.', '.5', '[]', '{}', '[object Object]', '""', "''", 'n', 'f', 'var n',
         'break', 'case', 'catch', 'continue', 'debugger', 'default', 'delete', 'do', 'else', 'finally', 'for',
         'function', 'if', 'in', 'instanceof', 'new', 'return', 'switch', 'throw', 'try', 'typeof', 'var', 'void',
         'while', 'with', 'class', 'const', 'enum', 'export', 'extends', 'import', 'super', ' undefined', 'undefined ',
         'Undefined', 'NULL', 'nan', 'inf', 'nil', 'u0041', 'x41',
         # content that *looks like* an escape sequence (a real backslash followed by what an escape would be):
         # decoded once by the literal, never again
         '\\u0041', '\\u00e9x', 'a\\u0062c', '\\n', '\\x41', '\\101', '\\', 'a\\', '\\\\u0041', '\\"', "\\'", '%s', '%(a)s', '{0}', 'use strict', ';', ',', ':', '=', '-', '+', '!', '~']


def gen_string(ctx, rng):
    if rng.random() < 0.12:
        return json.dumps(rng.choice(WORDS))
    parts = []
    for _ in range(rng.randint(0, 6)):
        r = rng.random()
        if r < 0.4:
            parts.append(rng.choice(ESCAPES))
        elif r < 0.45 and not ctx.suppressed('json_solidus_escape'):
            parts.append('\\/')
        elif r < 0.5 and not ctx.suppressed('json_surrogate_pair_escape'):
            parts.append(rng.choice(['\\ud83d\\ude00', '\\ud834\\udd1e']))
        else:
            parts.append(rng.choice(RAW))
    return '"' + ''.join(parts) + '"'


def gen_value(ctx, rng, depth, ws):
    r = rng.random()
    if depth <= 0 or r < 0.45:
        k = rng.random()
        if k < 0.35:
            return rng.choice(NUMBERS)
        if k < 0.75:
            return gen_string(ctx, rng)
        return rng.choice(['true', 'false', 'null'])
    w = lambda: rng.choice(ws)
    if r < 0.75:
        n = rng.choice([0, 1, 1, 2, 3, 5])
        items = [gen_value(ctx, rng, depth - 1, ws) for _ in range(n)]
        return '[' + w() + (w() + ',' + w()).join(items) + w() + ']'
    n = rng.choice([0, 1, 2, 2, 3, 4])
    items = []
    for _ in range(n):
        key = json.dumps(rng.choice(KEYS)) if rng.random() < 0.8 else gen_string(ctx, rng)
        items.append(key + w() + ':' + w() + gen_value(ctx, rng, depth - 1, ws))
    return '{' + w() + (w() + ',' + w()).join(items) + w() + '}'


def nontrivial_value(v, text):
    return isinstance(v, (dict, list)) or (isinstance(v, str) and '\\' in text) or isinstance(v, float)


FORMS = {'var': 'var n = %s;', 'assign': 'n = %s;', 'function': 'function f() { var n = %s; }',
         'function_assign': 'function f() { n = %s; }'}
# the binding statement among other statements that concern the same name (the literal is the last thing bound to
# it, by JavaScript's rules and by reading order alike): used for a sample of the values
CONTEXT_FORMS = {'var_after_function_of_that_name': 'function n() {} var n = %s;', 'var_then_assign': 'var n; n = %s;',
                 'var_reassigned': 'var n = 1; n = %s;', 'var_redeclared': 'var n = [0]; var n = %s;',
                 'assign_reassigned': 'n = {"old": 1}; n = %s;', 'var_after_empty_statements': ';;var n = %s;',
                 'var_then_empty': 'var n = %s; ;', 'var_chained': 'var n = n = %s;', 'var_parenthesised': 'var n = (%s);',
                 'assign_parenthesised': 'n = (%s);',
                 'function_var_after_function_of_that_name': 'function f() { function n() {} var n = %s; }',
                 'function_var_then_assign': 'function f() { var n; n = %s; }'}
FORMS.update(CONTEXT_FORMS)
BASE_FORMS = ['var', 'assign', 'function', 'function_assign']


class Hits(object):
    def __init__(self, ctx):
        self.ctx = ctx

    def install(self):
        import calmjs.parse.unparsers.extractor as ex
        ctx = self.ctx
        self.recs = []
        for cls in ('LiteralEval', 'GroupAsMap', 'GroupAsList'):
            self.recs.append(probe.wrap_generator(getattr(ex, cls), '__call__',
                                                  on_done=lambda a, k, n, c=cls: ctx.hit(c)))
        return self

    def remove(self):
        for r in self.recs:
            r.remove()


def check(ctx, jtext, form, fold):
    import calmjs.parse.unparsers.extractor as ex
    from calmjs.parse.parsers.es5 import parse
    try:
        expected = json.loads(jtext)
    except ValueError:
        ctx.count('generator_not_json')
        return
    src = FORMS[form] % jtext
    try:
        tree = parse(src)
    except Exception as e:
        ctx.count('not_accepted_as_es5')       # C03's concern
        return
    try:
        # fold: bit 0 = fold_ops, bit 1 = ignore_errors (the lenient dispatcher); a literal converts without error, so
        # the option may not change what it converts to
        fold = int(fold)
        if fold & 2:
            ctx.hit('ignore_errors')
        result = ex.ast_to_dict(tree, fold_ops=bool(fold & 1), **({'ignore_errors': True} if fold & 2 else {}))
    except RecursionError:
        ctx.count('skipped:resource_limit')
        return
    except Exception as e:
        ctx.violation('C19:raised:%s' % type(e).__name__, {'json': jtext, 'form': form, 'fold_ops': fold},
                      'ast_to_dict raised %s: %s\nsource: %r' % (type(e).__name__, e, src[:200]))
        return
    ctx.hit('ast_to_dict')
    nt = nontrivial_value(expected, jtext)
    ctx.case((jtext, form, fold), nt, sample={'json': jtext[:120], 'form': form, 'fold_ops': fold}
             if (nt and ctx.rng.random() < 0.0008) else None)
    ctx.count('type:' + type(expected).__name__)
    v = judge('function' if form.startswith('function') else 'var', result, expected)
    if v:
        ctx.violation(v[0], {'json': jtext, 'form': form, 'fold_ops': fold}, '%s\nsource: %r' % (v[1], src[:300]))


def wide_values(rng):
    def num():
        return rng.choice(['-%d', '%d', '-%d.5', '-0.%d', '%de1', '-%dE-2']) % rng.randint(0, 999)
    out = []
    for n in (300, 700, 1500):
        out.append('[%s]' % ','.join(num() for i in range(n)))
        out.append('[%s]' % ','.join('[-%d.5,-%d]' % (i, i) for i in range(n // 2)))
        out.append('{%s}' % ','.join('"k%d":%s' % (i, num()) for i in range(n)))
        out.append('[%s]' % ','.join('{"a":-%d,"b":[true,null,"s%d"]}' % (i, i) for i in range(n // 3)))
        out.append('[%s]' % ','.join(rng.choice(['true', 'false', 'null', '"x"', '[]', '{}', '-1']) for i in range(n)))
    out.append(json.dumps('x' * 6000 + '\n' + 'y' * 3000))
    out.append('{%s}' % ','.join('"%s":"%s"' % ('k' * (i % 40 + 1) + str(i), 'v' * (i % 90)) for i in range(800)))
    return out


def run(ctx):
    h = Hits(ctx).install()
    rng = ctx.rng
    try:
        n = ctx.per_shard(1000, 20000)
        for i in range(n):
            ws = [''] if i % 3 == 0 else WS
            j = gen_value(ctx, rng, rng.randint(0, 6), ws)
            forms = list(BASE_FORMS) if i % 4 == 0 else [BASE_FORMS[i % len(BASE_FORMS)], 'var', sorted(CONTEXT_FORMS)[i % len(CONTEXT_FORMS)]]
            for form in forms:
                for fold in (0, 1, 2 + (i & 1)):
                    check(ctx, j, form, fold)
            if not (i & 0x3f) and ctx.out_of_time():
                break
        # wide values: the statement has no bound on the number of members, and bookkeeping that grows with the
        # number of values converted in one program (stacks, counters) only shows on literals with hundreds of them
        for k, jtext in enumerate(wide_values(random.Random(ctx.seed * 31 + 5))):
            if k % ctx.nshards == ctx.shard:
                ctx.hit('wide_value')
                for form in BASE_FORMS:
                    for fold in (False, True):
                        check(ctx, jtext, form, fold)
        # values that are empty or falsy - what a placeholder, a default or a filter could be confused with - at every position
        falsy = ['""', '0', 'false', 'null', '[]', '{}', '-0', '0.0', '" "', '"0"']
        k = 0
        for a in falsy:
            for jtext in (a, '[%s]' % a, '["a", %s, "b"]' % a, '[%s, %s]' % (a, a), '[[1, %s], [2, "x"]]' % a, '{"k": %s}' % a,
                          '{"k": [%s], "": %s}' % (a, a), '[{"a": %s}, %s, [%s]]' % (a, a, a), '{"": {"": %s}}' % a,
                          '[%s]' % ', '.join(falsy), '{%s}' % ', '.join('"k%d": %s' % (n, v) for n, v in enumerate(falsy))):
                k += 1
                if k % ctx.nshards == ctx.shard:
                    ctx.hit('falsy_value')
                    for form in BASE_FORMS:
                        for fold in (0, 1, 2, 3):
                            check(ctx, jtext, form, fold)
        # every such word as the value, as an element, as a member value and as a key
        for k, word in enumerate(WORDS):
            if k % ctx.nshards == ctx.shard:
                ctx.hit('word_string')
                q = json.dumps(word)
                for jtext in (q, '[%s]' % q, '[1, %s, %s]' % (q, q), '{"k": %s}' % q, '{%s: 1}' % q, '{%s: %s}' % (q, q),
                              '{"a": {%s: [%s]}}' % (q, q)):
                    for form in BASE_FORMS:
                        for fold in (0, 1, 2, 3):
                            check(ctx, jtext, form, fold)
        # every number spelling and every escape on its own
        for k, num in enumerate(NUMBERS):
            if k % ctx.nshards == ctx.shard:
                for form in BASE_FORMS:
                    for fold in (False, True):
                        check(ctx, num, form, fold)
                        check(ctx, '[%s]' % num, form, fold)
        for k, e in enumerate(ESCAPES + RAW):
            if k % ctx.nshards == ctx.shard:
                for fold in (0, 1, 2, 3):
                    check(ctx, json.dumps(e) if e in RAW else '"%s"' % e, 'var', fold)
    finally:
        h.remove()


def replay(ctx, witness):
    h = Hits(ctx).install()
    try:
        check(ctx, witness['json'], witness.get('form', 'var'), int(witness.get('fold_ops') or 0))
    finally:
        h.remove()


def canary(ctx, spec):
    sub = type(ctx)(ctx.prop, ctx.tier, ctx.seed, 0, 1, 30)
    check(sub, spec['json'], spec.get('form', 'var'), int(spec.get('fold_ops') or 0))
    return next(iter(sub.viol_count), None)

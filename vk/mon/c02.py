"""
C02 - minified output parses back to the same program; no token fusion; only
ASI-safe semicolons are dropped.

Round-trip monitor around the real ``parse`` / ``minify_print`` (drop_semi off
and on).  The tree comparison is the verdict (string literals compared after
removing line continuations, stand-alone empty statements of statement lists
ignored); two diagnostic sub-monitors sharpen the witness: the token sequence
of the output against that of the input, and the diff of the two outputs
(every dropped ';' must be one ASI restores).
"""

from vk.boot import HarnessBroken
from vk import work, printing, probe
from vk.gen import jsgen, products
from vk.ref import refjs
from vk.tree import first_diff
from vk.ddmin import minimise_text

LEVEL = 'exploration'
RULE = ('inputs: as C01 (corpus, derivations in 5 layouts, operator x operand-class products, member/call/new '
        'products, keyword x following-token products, statement-kind x container products, sequences of two '
        'statements of every kind) x {drop_semi off, on}; every text that has a comment also as the tree of a '
        'comment-capturing parser (plus fifteen comment placements around empty bodies and restricted keywords); a case = (text, drop_semi); non-trivial = the minifier '
        'removed at least one separator between two tokens (output shorter than the single-blank rendering) ; '
        'distinct by (text, flag).')
ASSUMPTIONS = ['inputs the real parser rejects are skipped; the reference re-read applies to inputs refjs reads as the '
               'same tree (else input_not_es5)',
               'line continuations inside string literals are stripped by design; stand-alone empty statements in '
               'statement lists may be removed by semicolon dropping']
BUDGET_S = {'quick': 120, 'thorough': 900}
REQUIRED_HITS = ['identifier_boundary', 'minify_print', 'reparse', 'reference_reread', 'space_minimum_decision', 'semicolon_dropped',
                 'tree_with_captured_comments']
FLOOR = {'quick': 3000, 'thorough': 40000}


def judge(ci, out, c2, err2, ref_c, ref_err, es5):
    want = printing.minified_canon(ci)
    if c2 is None:
        return ('C02:output_does_not_parse', 'minified output is rejected by the parser itself: %s' % err2)
    got = printing.minified_canon(c2)
    if got != want:
        return ('C02:tree_changed', 'parse(minify(T)) differs from T: %s' % first_diff(want, got))
    if es5:
        if ref_c is None:
            return ('C02:output_not_es5', 'a conforming ES5 parser rejects the minified output: %s' % ref_err)
        if printing.minified_canon(ref_c) != want:
            return ('C02:output_reads_differently', 'a conforming ES5 parser reads the minified output as a '
                    'different tree: %s' % first_diff(want, printing.minified_canon(ref_c)))
    return None


def token_diagnosis(src, out):
    """first divergence of the reference token logs (input vs output)"""
    try:
        a = [t.value for t in refjs.parse(src).tokens if t.value != ';']
    except Exception:
        return ''
    try:
        b = [t.value for t in refjs.parse(out).tokens if t.value != ';']
    except refjs.RefSyntaxError as e:
        return ' [output does not re-lex: %s]' % e
    except Exception:
        return ''
    a = [printing.CONT.sub('', v) for v in a]
    for i, (x, y) in enumerate(zip(a, b)):
        if x != y:
            return ' [token %d is %r in the input and %r in the output: fused or reclassified]' % (i, x, y)
    return ''


def dropped_semicolons(out_keep, out_drop):
    """(number of ';' missing in the drop_semi output, ok?)"""
    n = out_keep.count(';') - out_drop.count(';')
    return n


def selfcheck(ctx):
    a = ('ES5Program', (('children', (('ExprStatement', (('expr', ('Identifier', (('value', 'a'),))),)),
                                      ('EmptyStatement', (('value', ';'),)))),))
    a2 = ('ES5Program', (('children', (('ExprStatement', (('expr', ('Identifier', (('value', 'a'),))),)),)),))
    b = ('ES5Program', (('children', (('ExprStatement', (('expr', ('Identifier', (('value', 'b'),))),)),)),))
    w = ('ES5Program', (('children', (('While', (('predicate', ('Identifier', (('value', 'x'),))),
                                                 ('statement', ('EmptyStatement', (('value', ';'),))))),)),))
    w2 = ('ES5Program', (('children', (('While', (('predicate', ('Identifier', (('value', 'x'),))),
                                                  ('statement', ('ExprStatement', (('expr', ('Identifier', (('value', 'a'),))),))))),)),))
    planted = [judge(a, 'x', None, 'boom', None, None, True), judge(a, 'x', b, None, b, None, True),
               judge(a, 'x', a, None, None, 'rejected', True), judge(a, 'x', a, None, b, None, True),
               judge(w, 'x', w2, None, w2, None, True)]     # a loop body must never be dropped
    ok = [judge(a, 'x', a2, None, a2, None, True)]         # stand-alone empty statement may go
    if not all(planted) or any(ok):
        raise HarnessBroken('C02 oracle failed on planted observations %r %r' % (planted, ok))
    assert 'fused' in token_diagnosis('a + +b', 'a++b') or 'not re-lex' in token_diagnosis('a + +b', 'a++b')
    return len(planted) + 2


def one(p, drop_semi):
    from calmjs.parse.unparsers.es5 import minify_print
    out = minify_print(p.tree, drop_semi=drop_semi)
    t2, c2, err2 = printing.reparse(out)
    ref_c = ref_err = None
    if p.es5:
        _, ref_c, ref_err = printing.ref_canon(out)
    return out, c2, err2, ref_c, ref_err


class _Quiet(object):
    def __init__(self, ctx):
        self._suppressed = ctx._suppressed

    def count(self, *a, **k):
        pass


COMMENTED = ['a = 1; // first\nb = 2;', 'function f(a) { // explain\n return a in b }', 'if (a) /* c */ ; else b',
             'while (poll()) /* spin */ ;', 'function g() { for (;;) /* forever */ ; }', 'a /* x */ + /* y */ +b',
             'return_ /* c */\n/re/.test(x)', 'do /* c */ ; while (x) // end', '/* lead */ x = 1 /* trail */',
             'if (a) { /* only a comment */ }', 'switch (a) { /* c */ case 1: // d\n break /* e */; }',
             'var o = { /* c */ get /* d */ x /* e */ () { return 1 } };', 'x = a /* c */ in /* d */ b;',
             'for (var i /* c */ in /* d */ o) /* e */ ;', 'label: /* c */ for (;;) break /* d */ label;']


def check(ctx, text, origin, with_comments=False):
    p = printing.prepare(ctx, text, with_comments)
    if with_comments and p is not None:
        ctx.hit('tree_with_captured_comments')
    if p is None:
        ctx.case((text, 'skipped'), False)
        return
    spaced_len = None
    if p.side.ref is not None:
        spaced_len = sum(len(t.value) for t in p.side.ref.tokens) + max(0, len(p.side.ref.tokens) - 1)
    outs = {}
    for drop in (False, True):
        try:
            out, c2, err2, ref_c, ref_err = one(p, drop)
        except RecursionError:
            ctx.count('skipped:resource_limit')
            continue
        except Exception as e:
            ctx.hit('minify_print')
            ctx.case((text, drop), False)
            ctx.violation('C02:printer_raised:%s' % type(e).__name__, {'text': text, 'drop_semi': drop},
                          'minifying raised %s: %s\ninput: %r\ndrop_semi=%s' % (type(e).__name__, str(e)[:200], text[:300], drop))
            break
        outs[drop] = out
        ctx.hit('minify_print')
        ctx.hit('reparse')
        if p.es5:
            ctx.hit('reference_reread')
        nontrivial = spaced_len is not None and len(out) < spaced_len and p.ntok >= 3
        ctx.case((text, drop, with_comments), nontrivial,
                 sample={'origin': origin, 'drop_semi': drop, 'text': text[:120], 'output': out[:140]}
                 if (nontrivial and ctx.rng.random() < 0.002) else None)
        try:
            v = judge(p.ci, out, c2, err2, ref_c, ref_err, p.es5)
        except RecursionError:
            ctx.count('skipped:resource_limit')     # this harness' own recursive helpers: no verdict
            continue
        if v:
            mech, detail = v
            detail += token_diagnosis(text, out)

            def failing(t):
                p2 = printing.prepare(_Quiet(ctx), t, with_comments)
                if p2 is None:
                    return False
                try:
                    r = one(p2, drop)
                except RecursionError:
                    return False
                j = judge(p2.ci, r[0], r[1], r[2], r[3], r[4], p2.es5)
                return j is not None and j[0] == mech
            small = text
            if len(text) > 10 and ctx.viol_count[mech] < 2:
                try:
                    small = minimise_text(text, failing, 200)
                except Exception:
                    small = text
            ctx.violation(mech, {'text': small, 'drop_semi': drop, 'original': text if small != text else None,
                                 'with_comments': with_comments},
                          '%s\ninput: %r\ndrop_semi=%s comment capture %s output: %r' % (
                              detail, small[:300], drop, with_comments, out[:200]))
            break
    if len(outs) == 2:
        n = dropped_semicolons(outs[False], outs[True])
        if n > 0:
            ctx.hit('semicolon_dropped', n)
        elif n < 0:
            ctx.violation('C02:drop_semi_adds_semicolons', {'text': text, 'drop_semi': True},
                          'drop_semi output has more semicolons than the full output\ninput: %r' % text[:200])


class SpaceDecisions(object):
    """wrapper on the minimum-space layout handler: which (last char class,
    first char class) pairs were presented, and whether a space was emitted"""

    def __init__(self, ctx):
        self.ctx = ctx
        self.pairs = {}

    @staticmethod
    def cls(c):
        if not c:
            return 'none'
        if c.isalpha() and c < '\x80':
            return 'letter'
        if c.isdigit():
            return 'digit'
        if c in '$_':
            return c
        if ord(c) > 127:
            return 'non_ascii'
        return c

    def install(self):
        import calmjs.parse.rules as rules
        orig = rules.layout_handler_space_minimum
        me = self

        def handler(dispatcher, node, before, after, prev):
            out = list(orig(dispatcher, node, before, after, prev) or ())
            if before is not None and after is not None:
                key = '%s|%s' % (me.cls(before[-1:]), me.cls(after[:1]))
                d = me.pairs.setdefault(key, [0, 0])
                d[1 if out else 0] += 1
                me.ctx.hit('space_minimum_decision')
            for x in out:
                yield x
        self.orig = orig
        rules.layout_handler_space_minimum = handler
        return self

    def remove(self):
        import calmjs.parse.rules as rules
        rules.layout_handler_space_minimum = self.orig
        self.ctx.extra['adjacency_pairs_seen__set'] = sorted(
            '%s (space emitted %d times, omitted %d)' % (k, v[1], v[0]) for k, v in self.pairs.items())


def run(ctx):
    sd = SpaceDecisions(ctx).install()
    try:
        stride = ctx.pick(6, 1)
        idx = 0
        for key, text in products.all_products():
            idx += 1
            if idx % ctx.nshards != ctx.shard:
                continue
            if key[0] in ('binary', 'binary_paren') and (idx // ctx.nshards) % stride:
                continue
            check(ctx, text, 'product:' + key[0])
            if not (idx & 0x1ff) and ctx.time_left() < ctx.budget_s * 0.35:
                ctx.note('product workload truncated by time in shard %d' % ctx.shard)
                break

        # identifier characters of every class the grammar names, at both edges of a name, against the
        # keyword operators and the tokens that fuse with words
        for text in boundary_texts(ctx):
            check(ctx, text, 'identifier_boundary')
            ctx.hit('identifier_boundary')

        def opts_fn(i, r):
            return jsgen.Opts(clean=(i % 2 == 0), unicode_idents=(i % 3 == 0), string_continuations=(i % 3 == 1))
        progs = work.Programs(ctx, ctx.per_shard(300, 8000), opts_fn=opts_fn)
        for text, meta in progs:
            check(ctx, text, meta['origin'])
            # the tree of a parser that captures comments is a tree of the same program: minified, it reads
            # back as the same program (the minifier has no rule that prints comments)
            if '/*' in text or '//' in text:
                check(ctx, text, meta['origin'], with_comments=True)
            if ctx.out_of_time():
                break
        progs.report()
        for k, (name, n, text) in enumerate(work.deep_chain_texts()):
            if k % ctx.nshards == ctx.shard:
                ctx.hit('deep_chain')
                check(ctx, text, 'deep_chain:' + name)
        for k, text in enumerate(COMMENTED):
            if k % ctx.nshards == ctx.shard:
                check(ctx, text, 'commented', with_comments=True)
    finally:
        sd.remove()


def boundary_chars():
    """(start characters, part-only characters): up to 10 per Unicode category of 7.6, evenly spread over
    the BMP, plus the ASCII specials and ZWNJ / ZWJ"""
    import unicodedata
    by_cat = {}
    for cp in range(0x80, 0x10000):
        if 0xd800 <= cp < 0xe000:
            continue
        c = chr(cp)
        by_cat.setdefault(unicodedata.category(c), []).append(c)

    def spread(cat, n=10):
        xs = by_cat.get(cat, [])
        if len(xs) <= n:
            return xs
        return [xs[(i * (len(xs) - 1)) // (n - 1)] for i in range(n)]
    start = ['$', '_', 'Z'] + [c for cat in ('Lu', 'Ll', 'Lt', 'Lm', 'Lo', 'Nl') for c in spread(cat)]
    part = ['9', '\u200c', '\u200d'] + [c for cat in ('Mn', 'Mc', 'Nd', 'Pc') for c in spread(cat)]
    return start, part


def boundary_texts(ctx):
    from calmjs.parse.lexers.es5 import Lexer
    from calmjs.parse.exceptions import ECMASyntaxError

    def one_identifier(name):
        # the sample is restricted to names the repository's own tables (an older Unicode version than
        # Python's) take for one identifier; others are counted, not judged
        try:
            lx = Lexer()
            lx.input(name)
            toks = list(lx)
        except ECMASyntaxError:
            return False
        return len(toks) == 1 and toks[0].type == 'ID' and toks[0].value == name
    start, part = boundary_chars()
    names = []
    for c in start:
        names += [c, c + 'b', 'a' + c]
    for c in part:
        names += ['a' + c, 'a' + c + 'b']
    names += ['\\u0061', 'a\\u0062', '\\u00e9x']
    k = 0
    for i, name in enumerate(names):
        if i % ctx.nshards != ctx.shard:
            continue
        if not one_identifier(name) or not refjs_accepts(name):
            ctx.count('boundary_name_outside_common_tables')
            continue
        k += 1
        for tpl in ('%s in b', 'a in %s', '%s instanceof %s', 'typeof %s', 'void %s;', 'new %s', 'delete %s.x',
                    'x = %s in %s ? %s : 1', 'function f() { return %s }', 'for (var %s in %s) ;', '%s + +%s',
                    '%s - -%s', '%s / /r/', '1 .x + %s', 'if (a) %s; else %s', 'do %s; while (%s)',
                    'a = {get %s() {}, set %s(v) {}}', 'throw %s'):
            yield tpl.replace('%s', name)
    ctx.extra['boundary_names_judged'] = k


def refjs_accepts(name):
    try:
        r = refjs.parse(name)
    except refjs.RefSyntaxError:
        return False
    return len(r.tokens) == 1


def replay(ctx, witness):
    for key in ('text', 'original'):
        if witness.get(key):
            check(ctx, witness[key], 'replay', with_comments=bool(witness.get('with_comments')))


def canary(ctx, spec):
    sub = type(ctx)(ctx.prop, ctx.tier, ctx.seed, 0, 1, 30)
    sub._suppressed = set()
    check(sub, spec['text'], 'canary')
    return next(iter(sub.viol_count), None)

"""
C10 - base64-VLQ codec is a bijection in canonical Source Map V3 form.

Postcondition contracts on the six public functions of calmjs.parse.vlq,
driven by an exhaustive integer range (partitioned over the shards),
power-of-32 boundaries up to 400 bits, random lists and mapping structures,
and every canonical VLQ string of length <= 3; the reference is refvlq.
"""

import itertools

from vk.boot import HarnessBroken
from vk.ref import refvlq
from vk import probe

LEVEL = 'exploration'
RULE = ('integers: every integer of the symmetric range (partitioned over shards, so '
        'distinct by construction) plus +-(32^k-1), +-32^k, +-(32^k+1) and the same around '
        '2^(5k-1) for k<=80, and 2^(5k) for k up to 20000 (encodings of thousands of digits); non-trivial = the encoding needs a continuation digit (|i|>=16). '
        'strings: every string of length<=3 over the base64 alphabet that refvlq certifies '
        'complete and canonical; non-trivial = length>=2. lists / mapping structures: '
        'seeded random; non-trivial = at least two integers.')
ASSUMPTIONS = ['refvlq (bit-string arithmetic written from the Source Map V3 description) is correct; '
               'it is self-tested against the specification examples at start-up',
               'CPython 3.12 integer arithmetic']
BUDGET_S = {'quick': 60, 'thorough': 400}
REQUIRED_HITS = ['encode_vlq', 'encode_vlqs', 'decode_vlq', 'decode_vlqs',
                 'encode_mappings', 'decode_mappings', 'vlq_decoder']
FLOOR = {'quick': 100000, 'thorough': 1000000}


# -- oracle: pure functions over observed values ---------------------------------

def law_encode_int(i, enc):
    """observed: encode_vlq(i) == enc"""
    exp = refvlq.encode(i)
    if enc != exp:
        return 'encode_vlq(%d) gave %r, canonical form is %r' % (i, enc, exp)
    return None


def law_decode_one(s, got):
    """observed: decode_vlq(s) == got; s is a complete canonical string"""
    exp = refvlq.decode(s)
    if not exp or got != exp[0]:
        return 'decode_vlq(%r) gave %r, expected %r' % (s, got, exp[:1])
    return None


def law_decode_all(s, got):
    exp = refvlq.decode(s)
    if tuple(got) != exp:
        return 'decode_vlqs(%r) gave %r, expected %r' % (s, got, exp)
    return None


def law_encode_list(ints, enc):
    exp = refvlq.encode_list(ints)
    if enc != exp:
        return 'encode_vlqs(%r) gave %r, expected %r' % (list(ints), enc, exp)
    return None


def ref_encode_mappings(m):
    return ';'.join(','.join(refvlq.encode_list(seg) for seg in line) for line in m)


def ref_decode_mappings(s):
    return [[refvlq.decode(seg) for seg in line.split(',') if seg] for line in s.split(';')]


def law_encode_mappings(m, enc):
    exp = ref_encode_mappings(m)
    if enc != exp:
        return 'encode_mappings(%r) gave %r, expected %r' % (m, enc, exp)
    return None


def law_decode_mappings(s, got):
    exp = ref_decode_mappings(s)
    norm = [[tuple(seg) for seg in line] for line in got]
    if norm != exp:
        return 'decode_mappings(%r) gave %r, expected %r' % (s, got, exp)
    return None


def selfcheck(ctx):
    refvlq.selftest()
    planted = [
        law_encode_int(1, 'D'),              # sign in the wrong bit
        law_encode_int(16, 'gA'),            # wrong continuation digit
        law_encode_int(16, 'QB'),            # continuation bit missing
        law_decode_one('hB', 16),            # sign lost
        law_decode_all('AAgBC', (0, 0, 1, 16)),
        law_encode_list([1, -1], 'DC'),
        law_encode_mappings([[(0, 0, 0, 0)], []], 'AAAA'),   # line lost
        law_decode_mappings('AAAA;;C', [[(0, 0, 0, 0)], [(1,)]]),
    ]
    if not all(planted):
        raise HarnessBroken('C10 oracle silent on a planted observation: %r' % planted)
    return len(planted)


# -- contracts on the real functions -------------------------------------------

class Contracts(object):
    def __init__(self, ctx, vlq):
        self.ctx = ctx
        self.vlq = vlq
        self.recs = []

    def _viol(self, fn, msg, witness):
        self.ctx.violation('C10:%s' % fn, witness, msg)

    def install(self):
        ctx, vlq = self.ctx, self.vlq

        def post_encode_vlq(snap, result, args, kwargs):
            ctx.hit('encode_vlq')
            m = law_encode_int(args[0], result)
            if m:
                self._viol('encode_vlq', m, {'fn': 'encode_vlq', 'arg': str(args[0])})

        def post_encode_vlqs(snap, result, args, kwargs):
            ctx.hit('encode_vlqs')
            m = law_encode_list(snap, result)
            if m:
                self._viol('encode_vlqs', m, {'fn': 'encode_vlqs', 'arg': [str(i) for i in snap]})

        def post_decode_vlq(snap, result, args, kwargs):
            ctx.hit('decode_vlq')
            if refvlq.is_canonical(args[0]) and args[0]:
                m = law_decode_one(args[0], result)
                if m:
                    self._viol('decode_vlq', m, {'fn': 'decode_vlq', 'arg': args[0]})

        def post_decode_vlqs(snap, result, args, kwargs):
            ctx.hit('decode_vlqs')
            if refvlq.is_canonical(args[0]):
                m = law_decode_all(args[0], result)
                if m:
                    self._viol('decode_vlqs', m, {'fn': 'decode_vlqs', 'arg': args[0]})

        def post_encode_mappings(snap, result, args, kwargs):
            ctx.hit('encode_mappings')
            m = law_encode_mappings(snap, result)
            if m:
                self._viol('encode_mappings', m, {'fn': 'encode_mappings', 'arg': snap})

        def post_decode_mappings(snap, result, args, kwargs):
            ctx.hit('decode_mappings')
            try:
                ok = all(refvlq.is_canonical(seg) for line in args[0].split(';')
                         for seg in line.split(','))
            except Exception:
                ok = False
            if ok:
                m = law_decode_mappings(args[0], result)
                if m:
                    self._viol('decode_mappings', m, {'fn': 'decode_mappings', 'arg': args[0]})

        self.recs = [
            probe.wrap(vlq, 'encode_vlq', after=post_encode_vlq),
            probe.wrap(vlq, 'encode_vlqs', before=lambda a, k: list(a[0]) if not isinstance(a[0], list) else a[0],
                       after=post_encode_vlqs),
            probe.wrap(vlq, 'decode_vlq', after=post_decode_vlq),
            probe.wrap(vlq, 'decode_vlqs', after=post_decode_vlqs),
            probe.wrap(vlq, 'encode_mappings',
                       before=lambda a, k: [[tuple(s) for s in line] for line in a[0]],
                       after=post_encode_mappings),
            probe.wrap(vlq, 'decode_mappings', after=post_decode_mappings),
        ]
        # the decoder generator: counted, and checked through its callers
        orig = vlq.vlq_decoder

        def counted_decoder(s):
            ctx.hit('vlq_decoder')
            return orig(s)
        vlq.vlq_decoder = counted_decoder
        return self

    def remove(self):
        for r in self.recs:
            r.remove()


def boundaries():
    out = set()
    for k in range(1, 81):
        for base in (32 ** k, 2 ** (5 * k - 1), 2 ** (5 * k) - 1):
            for d in (-1, 0, 1):
                out.add(base + d)
                out.add(-(base + d))
    # the limits of every machine integer width and of the other number systems a codec might pass through
    # (two's complement, IEEE doubles, decimal digits), around which a special case would sit
    for k in range(1, 401):
        for d in (-2, -1, 0, 1, 2):
            out.add(2 ** k + d)
            out.add(-(2 ** k) + d)
    for k in range(1, 40):
        for d in (-1, 0, 1):
            out.add(10 ** k + d)
            out.add(-(10 ** k) + d)
    # integers whose encoding has hundreds to thousands of digits (one step of whatever the codec does per digit)
    for k in (250, 600, 990, 1000, 1024, 2000, 5000, 20000):
        for d in (-1, 0, 1):
            out.add(2 ** (5 * k) + d)
            out.add(-(2 ** (5 * k)) + d)
    for x in (2 ** 53, 2 ** 24, 0xFFFFFFFF, 0x7FFFFFFF, 0xFFFFFFFFFFFFFFFF, 0x7FFFFFFFFFFFFFFF, 1 << 62, (1 << 63) - 1, 1 << 31):
        for d in (-1, 0, 1):
            out.add(x + d)
            out.add(-x + d)
    return sorted(out)


def check_int(ctx, vlq, i):
    """round-trip laws for one integer (the contracts check canonical form)."""
    try:
        e = vlq.encode_vlq(i)
        d = vlq.decode_vlq(e)
    except Exception as exc:
        # "for every integer": there is no integer the codec may refuse
        ctx.violation('C10:codec_raised:%s' % type(exc).__name__, {'fn': 'roundtrip_int', 'arg': str(i) if abs(i) < 2 ** 400 else hex(i)},
                      'encode_vlq / decode_vlq raised %s: %s for an integer of %d bits' % (type(exc).__name__, str(exc)[:120], i.bit_length()))
        return
    if d != i:
        ctx.violation('C10:roundtrip_int', {'fn': 'roundtrip_int', 'arg': str(i)},
                      'decode_vlq(encode_vlq(%d)) = %r via %r' % (i, d, e))
    r = refvlq.decode(e) if all(c in refvlq.VALUE for c in e) else None
    if r != (i,):
        ctx.violation('C10:independent_decoder', {'fn': 'roundtrip_int', 'arg': str(i)},
                      'independent decoder reads encode_vlq(%d)=%r as %r' % (i, e, r))


def check_list(ctx, vlq, ints):
    e = vlq.encode_vlqs(ints)
    d = vlq.decode_vlqs(e)
    if tuple(d) != tuple(ints):
        ctx.violation('C10:roundtrip_list', {'fn': 'roundtrip_list', 'arg': [str(i) for i in ints]},
                      'decode_vlqs(encode_vlqs(%r)) = %r' % (ints, d))


def check_string(ctx, vlq, s):
    d = vlq.decode_vlqs(s)
    e = vlq.encode_vlqs(d)
    if e != s:
        ctx.violation('C10:roundtrip_string', {'fn': 'roundtrip_string', 'arg': s},
                      'encode_vlqs(decode_vlqs(%r)) = %r via %r' % (s, e, d))
    if d:
        vlq.decode_vlq(s)


def check_mappings(ctx, vlq, m):
    e = vlq.encode_mappings(m)
    d = vlq.decode_mappings(e)
    norm = [[tuple(seg) for seg in line] for line in d]
    if norm != [[tuple(seg) for seg in line] for line in m]:
        ctx.violation('C10:roundtrip_mappings', {'fn': 'roundtrip_mappings', 'arg': m},
                      'decode_mappings(encode_mappings(%r)) = %r via %r' % (m, d, e))
    e2 = vlq.encode_mappings(d)
    if e2 != e:
        ctx.violation('C10:roundtrip_mappings_str', {'fn': 'roundtrip_mappings', 'arg': m},
                      'encode(decode(%r)) = %r' % (e, e2))
    # the decoded structure belongs to the caller: scribbling on it must not show in a later decode
    # (the contract on decode_mappings compares every result with the reference decoder)
    for line in d:
        if isinstance(line, list):
            line.append((7, 7, 7, 7))
    if isinstance(d, list):
        d.append([(9,)])
    d2 = vlq.decode_mappings(e)
    ctx.hit('decode_after_caller_edit')
    if [[tuple(seg) for seg in line] for line in d2] != [[tuple(seg) for seg in line] for line in m]:
        ctx.violation('C10:decode_result_shared_with_earlier_call', {'fn': 'roundtrip_mappings', 'arg': m},
                      'decode_mappings(%r) after the caller edited the result of an earlier identical call gave %r' % (e, d2))


def rand_int(rng):
    k = rng.random()
    if k < 0.5:
        return rng.randint(-40, 40)
    if k < 0.8:
        return rng.randint(-5000, 5000)
    if k < 0.95:
        return rng.randint(-2 ** 31, 2 ** 31)
    return rng.randint(-2 ** 200, 2 ** 200)


def rand_mappings(rng):
    lines = []
    for _ in range(rng.randint(1, 6)):
        line = []
        if rng.random() < 0.8:
            for _ in range(rng.randint(0, 5)):
                n = rng.choice((1, 4, 4, 4, 5))
                seg = [abs(rand_int(rng))] + [rand_int(rng) for _ in range(n - 1)]
                line.append(tuple(seg))
        lines.append(line)
    return lines


def run(ctx):
    import calmjs.parse.vlq as vlq
    con = Contracts(ctx, vlq).install()
    try:
        bits = ctx.pick(20, 24)
        lo, hi = -(2 ** bits), 2 ** bits
        total = hi - lo + 1
        per = (total + ctx.nshards - 1) // ctx.nshards
        a = lo + ctx.shard * per
        b = min(hi + 1, a + per)
        n = nt = 0
        for i in range(a, b):
            check_int(ctx, vlq, i)
            n += 1
            if i >= 16 or i <= -16:
                nt += 1
            if not (n & 0xffff) and ctx.out_of_time():
                break
        ctx.bulk(n, nt)
        ctx.count('integers_in_range', n)
        ctx.extra['integer_range'] = [lo, hi]
        ctx.extra['exhaustive'] = (n == b - a)
        if n != b - a:
            ctx.note('integer range truncated by time in shard %d: %d of %d' % (ctx.shard, n, b - a))

        maxlen = 0
        if ctx.shard == 0 or ctx.nshards == 1:
            bs = boundaries()
            for i in bs:
                check_int(ctx, vlq, i)
                maxlen = max(maxlen, len(refvlq.encode(i)))
                ctx.case(('int', i) if abs(i) < 2 ** 2000 else ('huge_int', i.bit_length(), i & 0xffff, i < 0), True, sample={'integer': str(i), 'encoded': refvlq.encode(i)}
                         if i in (32 ** 3 - 1, -(2 ** 64)) else None)
            ctx.count('boundary_integers', len(bs))
            ctx.extra['max_encoded_length'] = maxlen

        # canonical strings of length <= 3, partitioned by first character
        alpha = refvlq.ALPHABET
        ns = 0
        for n1, c1 in enumerate(alpha):
            if n1 % ctx.nshards != ctx.shard:
                continue
            for L in (1, 2, 3):
                for rest in itertools.product(alpha, repeat=L - 1):
                    s = c1 + ''.join(rest)
                    if not refvlq.is_canonical(s):
                        continue
                    check_string(ctx, vlq, s)
                    ns += 1
                    ctx.case(('str', s), L >= 2,
                             sample={'canonical_string': s, 'decoded': list(refvlq.decode(s))}
                             if s in ('gB', 'AgB', 'D+B') else None)
            if ctx.out_of_time():
                break
        ctx.count('canonical_strings', ns)
        if ctx.shard == 0:
            check_string(ctx, vlq, '')

        # random lists and mapping structures
        rng = ctx.rng
        nl = ctx.pick(3000, 60000)
        for k in range(nl):
            ints = [rand_int(rng) for _ in range(rng.randint(0, 8))]
            check_list(ctx, vlq, ints)
            ctx.case(('list', tuple(ints)), len(ints) >= 2,
                     sample={'list': [str(i) for i in ints], 'encoded': refvlq.encode_list(ints)} if k == 1 else None)
            m = rand_mappings(rng)
            check_mappings(ctx, vlq, m)
            ctx.case(('map', repr(m)), sum(len(s) for l in m for s in l) >= 2,
                     sample={'mappings': m, 'encoded': ref_encode_mappings(m)} if k == 2 else None)
            if not (k & 0x3ff) and ctx.out_of_time():
                break
        ctx.count('random_lists', nl)
    finally:
        con.remove()


def _run_witness(ctx, w):
    import calmjs.parse.vlq as vlq
    con = Contracts(ctx, vlq).install()
    try:
        fn, arg = w['fn'], w['arg']
        if fn in ('encode_vlq', 'roundtrip_int'):
            check_int(ctx, vlq, int(arg, 0))
        elif fn in ('encode_vlqs', 'roundtrip_list'):
            check_list(ctx, vlq, [int(a) for a in arg])
        elif fn in ('decode_vlq', 'decode_vlqs', 'roundtrip_string'):
            check_string(ctx, vlq, arg)
        elif fn in ('encode_mappings', 'roundtrip_mappings'):
            check_mappings(ctx, vlq, [[tuple(s) for s in line] for line in arg])
        elif fn == 'decode_mappings':
            vlq.decode_mappings(arg)
    finally:
        con.remove()


def replay(ctx, witness):
    _run_witness(ctx, witness)


def canary(ctx, spec):
    before = sum(ctx.viol_count.values())
    sub = type(ctx)(ctx.prop, ctx.tier, ctx.seed, 0, 1, 30)
    _run_witness(sub, spec)
    return next(iter(sub.viol_count), None)

"""
Shared workload plumbing for the program-driven monitors: corpus loading (W1),
program generation and rendering (W2 x W3), running the real parser and the
reference model side by side, and the cascade guards of DESIGN 2.4 / 2.7.
"""

import re
import json
import os

from vk.gen import jsgen
from vk.ref import refjs
from vk import tree as vtree
from vk import known

VERIF = os.path.dirname(os.path.dirname(os.path.abspath(__file__)))

_corpus = None


def corpus():
    global _corpus
    if _corpus is None:
        valid, invalid = [], []
        d = os.path.join(VERIF, 'corpus')
        for fn in sorted(os.listdir(d)):
            if fn.endswith('.json'):
                with open(os.path.join(d, fn)) as f:
                    data = json.load(f)
                valid.extend(data.get('valid', []))
                invalid.extend(data.get('invalid', []))
        _corpus = (valid, invalid)
    return _corpus


class Side(object):
    """Outcome of the real parser and of refjs on one text."""
    __slots__ = ('text', 'ref', 'ref_err', 'tree', 'impl_err', 'impl_exc_type', '_ci', '_cr')

    def __init__(self, text):
        self.text = text
        self.ref = self.ref_err = self.tree = self.impl_err = self.impl_exc_type = None
        self._ci = self._cr = None

    @property
    def ci(self):
        if self._ci is None and self.tree is not None:
            self._ci = vtree.canon_impl(self.tree)
        return self._ci

    @property
    def cr(self):
        if self._cr is None and self.ref is not None:
            self._cr = refjs.canon(self.ref.tree)
        return self._cr


def run_ref(text):
    try:
        return refjs.parse(text), None
    except refjs.RefSyntaxError as e:
        return None, e
    except RecursionError:
        return None, refjs.RefSyntaxError('too_deep', 0)


def run_impl(text, with_comments=False):
    """returns (tree, exception)  - only the documented exception types are
    treated as rejection; anything else propagates to the caller"""
    from calmjs.parse.parsers.es5 import parse
    from calmjs.parse.exceptions import ECMASyntaxError
    try:
        return parse(text, with_comments=with_comments), None
    except ECMASyntaxError as e:
        return None, e


def both(text, with_comments=False):
    s = Side(text)
    s.ref, s.ref_err = run_ref(text)
    try:
        s.tree, s.impl_err = run_impl(text, with_comments)
    except RecursionError:
        raise
    except Exception as e:   # a crash: belongs to C12, here it is a rejection
        s.impl_err = e
        s.impl_exc_type = type(e).__name__
    return s


def uncertain(res, err=None):
    """inputs on which the reference model itself is not authoritative
    (Annex B forms, escaped spellings of reserved words, exotic regex flags, inputs the
    specification can be read either way on)"""
    if err is not None and getattr(err, 'uncertain', False):
        return True
    if res is None:
        return False
    return bool(res.flags & {'annexb_octal', 'annexb_octal_escape', 'escaped_identifier',
                             'escaped_flags', 'exotic_flags'})


LAYOUTS = ('space', 'tight', 'lines', 'random', 'random_comments')


def render_variant(toks, style, rng, lt=None):
    if style == 'random_comments':
        return jsgen.render(toks, 'random', rng, lt=lt or rng.choice(jsgen.LINE_TERMINATORS), comments=True)
    if style == 'random':
        return jsgen.render(toks, 'random', rng, lt=lt or rng.choice(jsgen.LINE_TERMINATORS))
    return jsgen.render(toks, style, rng, lt=lt)


class Programs(object):
    """
    Iterator over (text, meta) for one shard: corpus texts first (sharded
    round-robin), then generated programs with one grammar alternative forced
    round-robin.  ``meta`` has 'origin', 'toks' (or None), 'features', 'layout'.
    """

    def __init__(self, ctx, n_generated, opts=None, layouts=LAYOUTS, use_corpus=True,
                 valid_only=True, opts_fn=None, long_every=100, long_pieces=30):
        self.ctx = ctx
        self.long_every = long_every
        self.long_pieces = long_pieces
        self.n = n_generated
        self.opts = opts
        self.opts_fn = opts_fn
        self.layouts = layouts
        self.use_corpus = use_corpus
        self.valid_only = valid_only
        self.features_seen = set()

    def __iter__(self):
        ctx = self.ctx
        rng = ctx.rng
        if self.use_corpus:
            valid, invalid = corpus()
            pool = valid if self.valid_only else valid + invalid
            for i, text in enumerate(pool):
                if i % ctx.nshards == ctx.shard:
                    yield text, {'origin': 'corpus', 'toks': None, 'features': (), 'layout': 'as-is'}
        feats = jsgen.ALL_FEATURES
        # every shard walks the feature list from a different offset
        off = (ctx.shard * 7 + ctx.seed * 13) % len(feats)
        recent = []
        for i in range(self.n):
            if ctx.out_of_time():
                break
            force = feats[(off + i) % len(feats)]
            o = self.opts_fn(i, rng) if self.opts_fn else (self.opts or jsgen.Opts())
            toks, fs = jsgen.generate(rng, o, force=force)
            self.features_seen.update(fs)
            layout = self.layouts[i % len(self.layouts)]
            text = render_variant(toks, layout, rng)
            yield text, {'origin': 'generated', 'toks': toks, 'features': fs, 'layout': layout,
                         'force': force}
            # now and then a program on the scale of a real file: the last derivations as one statement list
            # (bookkeeping that depends on the size of the input - line tables, offsets, counters - is not
            # reached by programs of twenty tokens)
            # (the random layouts may put a line terminator where a restricted production forbids one: such a
            # piece would make the whole text a rejected one)
            piece = text if layout in ('space', 'tight') else jsgen.render(toks, 'space', rng)
            if self.long_every and _plain_piece(ctx, piece):
                recent.append(piece)
            del recent[:-self.long_pieces]
            if self.long_every and i % self.long_every == self.long_every - 1 and len(recent) > 3 \
                    and not ctx.out_of_time():
                ctx.count('long_program')
                yield '\n;\n'.join(recent), {'origin': 'generated_long', 'toks': None, 'features': (),
                                             'layout': 'joined'}

    def report(self):
        all_f = set(jsgen.ALL_FEATURES)
        self.ctx.extra['generator_alternatives_total__max'] = len(all_f)
        self.ctx.extra['generator_alternatives_driven__set'] = sorted(self.features_seen & all_f)


_ANNEXB = re.compile(r'\\[0-9]|(?<![\w.$])0[0-9]')


def _plain_piece(ctx, piece):
    """a piece of a long program must not make the whole text one that is skipped: no Annex B spellings (the
    reference is not authoritative there), no trigger of an open finding of the property being checked"""
    if _ANNEXB.search(piece):
        return False
    names = getattr(ctx, '_suppressed', None)
    if names:
        res, err = run_ref(piece)
        if res is None or uncertain(res, err):
            return False
        return not any(known.trigger(n, piece, res) for n in names)
    return True


def skip_known(ctx, text, res, names=None):
    """True when the text contains the trigger of an *open* known finding of
    this property (the case is counted and left to that finding's canary)."""
    for name in (ctx._suppressed if names is None else names):
        if known.trigger(name, text, res):
            ctx.count('known_trigger:' + name)
            return True
    return False


def identifier_escape_texts():
    """identifiers spelled with escape sequences: well formed and allowed, well formed but standing for a
    character that may not appear there, malformed - at every position of a name, in several contexts"""
    escs = ['\\u0061', '\\u00e9', '\\u0030', '\\u200c', '\\u0301', '\\u203f', '\\u0024', '\\u005f',
            '\\u0020', '\\u005c', '\\u002e', '\\u2028', '\\u002d', '\\u00zz', '\\u12', '\\x41', '\\',
            '\\u{61}', '\\U0061', '\\u0069f',
            # escapes that stand for line terminators and white space (a pattern anchored with '$' lets a final LF through)
            '\\u000a', '\\u000d', '\\u2029', '\\u0009', '\\u00a0', '\\ufeff', '\\u000A', '\\u0085',
            # spellings that stand for a reserved word (alone they are no identifier, only a property name) or for get / set
            'v\\u0061r', '\\u0074his', 'i\\u006e', 'cl\\u0061ss', 'nul\\u006c', 't\\u0072ue', '\\u0067et',
            '\\u0069\\u0066']
    for esc in escs:
        for name in ('%s', 'a%s', 'a%sb', 'ab1%s', '%sb', '\\u0061%s', 'a%s\\u0062', '$_%sx'):
            for ctxt in ('%s', 'x = %s;', 'var %s = 1', 'a.%s', 'f(%s)', '({%s: 1})', 'function %s() {}',
                         '%s: for (;;) break %s', 'x = {get %s() {}}', 'try {} catch (%s) {}', 'x = %s in y',
                         'typeof %s'):
                yield ctxt.replace('%s', name % esc)


def string_escape_texts():
    """a backslash in a string literal followed by every ASCII character and a selection of others, in both kinds of
    quotes, alone, in the middle and at the end of the literal: 7.8.4 admits every source character after the
    backslash except digits other than 0-7 forms, x / u without their digits (and a line terminator continues the line)"""
    chars = [chr(c) for c in range(128)] + ['\u0085', '\u00a0', '\u00e9', '\u0301', '\u200c', '\u2028', '\u2029', '\ufeff',
                                            '\u53d8', '\ud800', '\U0001F600', '\r\n']
    for c in chars:
        for q in '"\'':
            for shape in ('%s', 'a%sb', 'ab%s', '%s%s'):
                body = shape.replace('%s', '\\' + c)
                yield 'x = %s%s%s;' % (q, body, q)
            yield 'var o = {%s\\%s%s: 1}, y = 2' % (q, c, q)


def multiline_token_texts():
    """a token that spans physical lines (a string with a line continuation, a comment holding a line terminator, a
    regex cannot) followed by more tokens on its last line: the line break inside a string is no line terminator
    between tokens, the one inside a comment is"""
    conts = ['\\\n', '\\\r', '\\\r\n', '\\\u2028', '\\\u2029']
    toks = ['"a%sb"' % c for c in conts] + ["'%s'" % conts[0], '"a%sb%sc"' % (conts[0], conts[2])] + \
        ['/* a\n b */', '/* a\r\n b */', '/*\u2028*/']
    tails = [' y', ' y = 1', ' var t', ' "c"', ' ++y', ' (y)', ' [0]', '\ny', ' ; y', ' + y', ' y\n', ' /re/.test(y)', ' in y',
             ' function g(){}', ' }', '']
    out = []
    for t in toks:
        for tail in tails:
            out.append('x = %s%s' % (t, tail))
            out.append('var s = 1 %s%s' % (t, tail))
            out.append('function f() { return %s%s }' % (t, tail))
    return out


def deep_chain_texts(depths=(60, 130, 200, 300)):
    """legal programs whose trees are deep rather than wide: what a printer keeps per level adds up"""
    out = []
    for n in depths:
        out.append(('sum_chain', n, 'x = ' + ' + '.join(['a'] * n) + ';'))
        out.append(('member_chain', n, 'x = a' + '.b' * n + ';'))
        out.append(('call_chain', n, 'a' + '()' * n + ';'))
        out.append(('else_if_chain', n, ' else '.join('if (a%d) b%d;' % (k, k) for k in range(n))))
        out.append(('nested_arrays', n, 'x = ' + '[' * n + '1' + ']' * n + ';'))
        out.append(('nested_blocks', n, '{' * n + 'x;' + '}' * n))
        out.append(('nested_calls', n, 'f(' * n + '1' + ')' * n + ';'))
        out.append(('nested_parens', n, 'x = ' + '(' * n + 'a' + ')' * n + ';'))
        out.append(('conditional_chain', n, 'x = ' + ' : '.join('a%d ? b%d' % (k, k) for k in range(n)) + ' : c;'))
        out.append(('assignment_chain', n, ' = '.join('a%d' % k for k in range(n)) + ' = 1;'))
        out.append(('comma_chain', n, ', '.join(['a'] * n) + ';'))
        out.append(('unary_chain', n, 'x = ' + '!' * n + 'a;'))
        if n <= 130:
            out.append(('nested_callbacks', n, 'f(function () { ' * n + 'x;' + ' });' * n))
            out.append(('nested_objects', n, 'x = ' + '{k: ' * n + '1' + '}' * n + ';'))
            out.append(('nested_ifs', n, 'if (a) ' * n + 'b;'))
    return out

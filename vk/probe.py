"""
Instrumentation layer (DESIGN 2.2): contract-style wrappers with hit counters,
class invariants, sys.monitoring coverage and yield/fault injection.
Wrappers add frames and time, never behaviour: they return the wrapped
function's own result object and re-raise its own exception object.
"""

import functools
import sys
import time


class Wrapped(object):
    """Record of one installed wrapper (so that it can be removed)."""

    def __init__(self, owner, name, orig):
        self.owner, self.name, self.orig = owner, name, orig
        self.calls = 0

    def remove(self):
        setattr(self.owner, self.name, self.orig)


def wrap(owner, name, before=None, after=None, on_raise=None):
    """
    Replace ``owner.name`` by a wrapper calling ``before(args, kwargs)``
    (its return value is the snapshot handed to ``after``), the original, then
    ``after(snapshot, result, args, kwargs)``.  ``on_raise(snapshot, exc, args,
    kwargs)`` is called when the original raises; the exception is re-raised
    unchanged.
    """
    orig = owner.__dict__[name] if isinstance(owner, type) else getattr(owner, name)
    raw = orig
    kind = None
    if isinstance(orig, staticmethod):
        kind, raw = staticmethod, orig.__func__
    elif isinstance(orig, classmethod):
        kind, raw = classmethod, orig.__func__
    rec = Wrapped(owner, name, orig)

    @functools.wraps(raw)
    def wrapper(*args, **kwargs):
        rec.calls += 1
        snap = before(args, kwargs) if before is not None else None
        try:
            result = raw(*args, **kwargs)
        except BaseException as e:
            if on_raise is not None:
                on_raise(snap, e, args, kwargs)
            raise
        if after is not None:
            after(snap, result, args, kwargs)
        return result

    wrapper.__vk_record__ = rec
    setattr(owner, name, kind(wrapper) if kind else wrapper)
    return rec


def wrap_generator(owner, name, on_item=None, on_done=None):
    """Wrap a generator function: observe each yielded item and completion."""
    orig = owner.__dict__[name] if isinstance(owner, type) else getattr(owner, name)
    rec = Wrapped(owner, name, orig)

    @functools.wraps(orig)
    def wrapper(*args, **kwargs):
        rec.calls += 1
        gen = orig(*args, **kwargs)
        if gen is None:
            if on_done is not None:
                on_done(args, kwargs, 0)
            return
        n = 0
        for item in gen:
            n += 1
            if on_item is not None:
                on_item(item, args, kwargs)
            yield item
        if on_done is not None:
            on_done(args, kwargs, n)

    setattr(owner, name, wrapper)
    return rec


# ---------------------------------------------------------------------------
# sys.monitoring helpers (Python 3.12+)

TOOL_ID = 3


class Coverage(object):
    """
    PY_START coverage on chosen code objects: ``callback(code, frame)`` is
    invoked for the selected code objects only, everything else is DISABLEd.
    """

    def __init__(self, codes, callback):
        self.codes = set(codes)
        self.callback = callback
        self.mon = sys.monitoring
        self.active = False

    def __enter__(self):
        mon = self.mon
        mon.use_tool_id(TOOL_ID, 'vk-coverage')
        ev = mon.events.PY_START

        def on_start(code, offset):
            if code in self.codes:
                self.callback(code, sys._getframe(1))
                return None
            return mon.DISABLE

        mon.register_callback(TOOL_ID, ev, on_start)
        for c in self.codes:
            mon.set_local_events(TOOL_ID, c, ev)
        self.active = True
        return self

    def __exit__(self, *a):
        mon = self.mon
        for c in self.codes:
            try:
                mon.set_local_events(TOOL_ID, c, 0)
            except Exception:
                pass
        mon.register_callback(TOOL_ID, mon.events.PY_START, None)
        mon.free_tool_id(TOOL_ID)
        self.active = False


class LineInjector(object):
    """
    LINE events in files whose name contains one of ``markers``.  With
    probability ``p`` (own RNG) the callback calls ``action(code, line)``:
    ``time.sleep(0)`` for yield injection, or raising for failpoints.
    """

    def __init__(self, markers, p, rng, action=None, tool_id=4):
        self.markers = tuple(markers)
        self.p = p
        self.rng = rng
        self.action = action or (lambda code, line: time.sleep(0))
        self.tool_id = tool_id
        self.events = 0
        self.fired = 0
        self._files = {}

    def _relevant(self, code):
        fn = code.co_filename
        r = self._files.get(fn)
        if r is None:
            r = self._files[fn] = any(m in fn for m in self.markers)
        return r

    def __enter__(self):
        mon = sys.monitoring
        mon.use_tool_id(self.tool_id, 'vk-inject')

        def on_line(code, line):
            if not self._relevant(code):
                return mon.DISABLE
            self.events += 1
            if self.rng.random() < self.p:
                self.fired += 1
                self.action(code, line)

        mon.register_callback(self.tool_id, mon.events.LINE, on_line)
        mon.set_events(self.tool_id, mon.events.LINE)
        return self

    def __exit__(self, *a):
        mon = sys.monitoring
        mon.set_events(self.tool_id, 0)
        mon.register_callback(self.tool_id, mon.events.LINE, None)
        mon.free_tool_id(self.tool_id)

"""
W2 - random derivations of the ECMA-262 5.1 Annex A grammar, as token lists
with slot annotations, plus W3 (layout rendering), W4 (semicolon omission) and
W5 (mutation) helpers.

A generated program is a list of ``(text, tag)``; tag 'semi' marks a statement
terminator (the semicolons 7.9 may make optional), 'forsemi' a for-header
separator, 'empty' the semicolon of an empty statement, None anything else.
Every choice point records ``name:alternative`` in ``Gen.features`` so that a
run can force alternatives round-robin and report which ones it drove.
"""

IDENT_POOL = ['a', 'b', 'c', 'x', 'y', 'z', 'foo', 'bar', 'i', 'j', 'k', 'n', 'obj', 'fn', 'arr',
              'value', 'result', 'tmp', 'self', 'cb', 'e', 'err', 'key', 'get', 'set', 'of', 'let',
              'static', 'yield', 'async', '$', '_', '$x', '_y', 'a1', 'inx', 'news', 'dox', 'ifx',
              'vars', 'typeofx', 'instanceofx', 'nul', 'tru', 'undefined', 'NaN', 'arguments', 'eval2',
              'get1', 'set2x', 'get_', 'getter', 'set$', 'in1', 'do0']
UNICODE_IDENTS = ['é', 'ñandú', 'λ', 'Привет', '变量', 'aé', 'ª', 'ǅ', 'ʰx', 'xé', 'x٠', 'x‿y', 'ℵ',
                  # a letter after a digit, ZWNJ / ZWJ, unicode escape sequences (7.6)
                  'x1\u00e9', 'a\u200c', 'a\u200db', '\\u0061bc', 'a\\u0062', 'x\\u0030', '\\u00e9t\\u00e9',
                  'x\u0301y', '$\u00e9', '_\\u200c',
                  # text that is not in a Unicode normal form (base letter + combining mark, conjoining jamo): a
                  # program is the sequence of characters it is given as
                  'an\u0303o', 'cafe\u0301', '\u1112\u1161\u11ab', 'A\u030a', 'o\u0302\u0323']
NUMBERS = ['0', '1', '2', '7', '10', '42', '100', '255', '1.5', '0.5', '.5', '5.', '1e3', '1E3', '1e+3', '1e-3',
           '1.5e10', '.5e1', '5.e1', '0x0', '0x1F', '0XaB', '0xdeadBEEF', '3.14159', '9007199254740993',
           '0.0', '0e0', '123456789012345678901234567890']
# Annex B legacy octal literals and escapes: accepted by the parser under test, no verdict on acceptance; drawn
# rarely so that they do not take the verdict away from most programs
NUMBERS_ANNEXB = ['010', '0777', '00']
STRINGS_ANNEXB = ['"\\101"', "'\\7\\08'", '"\\377\\400"']
STRINGS = ['""', "''", '"a"', "'a'", '"hello world"', "'it\\'s'", '"say \\"hi\\""', '"a\\nb"', '"tab\\t"',
           "'\\\\'", '"\\x41"', '"\\u0041"', '"\\0"', "'\\r\\n'", '"/*not a comment*/"', "'// nor this'",
           '"\\b\\f\\v"', '"é"', "'变'", '"a\'b"', "'a\"b'", '"\\/"', "'\\q'", '"use strict"', "' '", '";"',
           '"}"', "'{'", '"</script>"',
           # characters outside the basic plane (one character of the text, two UTF-16 units, four UTF-8 bytes)
           '"\U0001F600"', "'a\U0001F600b\U00010000c'", '"\U0001D11E \U0001D11E"',
           '"cafe\u0301"', "'re\u0301sume\u0301 \u1112\u1161\u11ab \u212b'",
           # a backslash in front of a character that is neither an escape letter nor ASCII punctuation (NonEscapeCharacter)
           '"\\ "', "'a\\\u00e9\\\tb'", '"\\\U0001F600\\\x7f"']
STRINGS_CONT = ['"a\\\nb"', "'a\\\r\nb'", '"x\\\ry"', '"p\\\u2028q"', "'\\\n'",
                # several line terminators inside one token
                '"a\\\nb\\\nc"', "'\\\n\\\r\n\\\rx'", '"l1\\\u2029l2\\\nl3\\\r\nl4"',
                # characters str.splitlines() breaks at but ES5 does not (FF, VT, FS, NEL), next to real continuations
                '"a\x0cb\\\nc\x0bd"', "'\x1cx\\\r\ny\x85z\\\nw'"]
REGEXES = ['/a/', '/a/g', '/ab+c/gi', '/[/]/', '/[a-z]/i', '/\\//', '/a\\/b/m', '/[\\]]/', '/(?:a|b)*/',
           '/^$/', '/\\d+/g', '/[^/]/', '/=/', '/=a/', '/ /', '/a b/', '/\\s/', '/[/\\]/]/', '/"/', "/'/",
           '/a/gim', '/{/', '/}/', '/(/ ', '/[(]/', '/\U0001F600+/', '/[\U00010000-\U0001F600]/g',
           '/[]/', '/[^]/', '/[]]/', '/[^]a]/g',
           # flags are any run of identifier characters (their validity is an early error, not grammar)
           '/a/x', '/a/G', '/a/g2', '/re/gx', '/a/gg', '/a/y', '/a/su', '/a/abcXYZ019']
REGEXES = [r.strip() if r != '/ /' else r for r in REGEXES if r.strip() != '/(/']

BINOPS = [('||', 1), ('&&', 2), ('|', 3), ('^', 4), ('&', 5), ('==', 6), ('!=', 6), ('===', 6), ('!==', 6),
          ('<', 7), ('>', 7), ('<=', 7), ('>=', 7), ('instanceof', 7), ('in', 7),
          ('<<', 8), ('>>', 8), ('>>>', 8), ('+', 9), ('-', 9), ('*', 10), ('/', 10), ('%', 10)]
ASSIGNOPS = ['=', '*=', '/=', '%=', '+=', '-=', '<<=', '>>=', '>>>=', '&=', '^=', '|=']
UNARYOPS = ['delete', 'void', 'typeof', '++', '--', '+', '-', '~', '!']

RESERVED = set('''break do instanceof typeof case else new var catch finally return void continue for switch
while debugger function this with default if throw delete in try class enum extends super const export
import null true false'''.split())

# every alternative a run may force; filled lazily by Gen.choose
ALL_FEATURES = [
    'stmt:block', 'stmt:var', 'stmt:empty', 'stmt:expr', 'stmt:if', 'stmt:ifelse', 'stmt:dowhile',
    'stmt:while', 'stmt:for', 'stmt:forin', 'stmt:continue', 'stmt:break', 'stmt:return', 'stmt:with',
    'stmt:switch', 'stmt:label', 'stmt:throw', 'stmt:try', 'stmt:debugger', 'stmt:funcdecl',
    'for:init_empty', 'for:init_expr', 'for:init_var', 'for:cond_empty', 'for:cond_expr',
    'for:count_empty', 'for:count_expr', 'forin:lhs', 'forin:var', 'forin:varinit',
    'try:catch', 'try:finally', 'try:both', 'switch:case', 'switch:default', 'switch:empty',
    'switch:default_middle', 'switch:emptycase', 'jump:label', 'jump:nolabel', 'return:expr', 'return:none',
    'var:init', 'var:noinit', 'var:multi', 'func:params0', 'func:params1', 'func:paramsN', 'func:emptybody',
    'expr:comma', 'expr:assign', 'expr:cond', 'expr:binary', 'expr:unary', 'expr:postfix', 'expr:new_noargs',
    'expr:new_args', 'expr:call', 'expr:dot', 'expr:bracket', 'expr:dot_keyword',
    'prim:ident', 'prim:this', 'prim:number', 'prim:string', 'prim:regex', 'prim:true', 'prim:false',
    'prim:null', 'prim:array', 'prim:object', 'prim:funcexpr', 'prim:funcexpr_named', 'prim:group',
    'group:single', 'group:nested', 'accessor:ident_name', 'accessor:string_name', 'accessor:number_name',
    'accessor:keyword_name',
    'array:empty', 'array:elision_lead', 'array:elision_mid', 'array:elision_trail', 'array:trailing_comma',
    'array:only_elision', 'object:empty', 'object:ident_key', 'object:string_key', 'object:number_key',
    'object:keyword_key', 'object:getter', 'object:setter', 'object:trailing_comma', 'object:getset_key',
] + ['binop:%s' % o for o, _ in BINOPS] + ['assignop:%s' % o for o in ASSIGNOPS] + \
    ['unary:%s' % o for o in UNARYOPS] + ['postfix:++', 'postfix:--']


class Opts(object):
    def __init__(self, **kw):
        self.clean = True            # no early errors (break in loop, return in function, labels defined)
        self.allow_with = True
        self.allow_regex = True
        self.unicode_idents = False
        self.string_continuations = False
        self.accessors = True
        self.max_depth = 5
        self.max_stmts = 4
        self.funcdecl_in_blocks = True
        self.keyword_props = True
        self.exclude = ()            # features never chosen (suppressed known-finding triggers)
        for k, v in kw.items():
            if not hasattr(self, k):
                raise TypeError(k)
            setattr(self, k, v)


class Gen(object):
    def __init__(self, rng, opts=None, force=None):
        self.rng = rng
        self.o = opts or Opts()
        self.force = force
        self.features = set()
        self.out = []
        self.fn_depth = 0
        self.loop_depth = 0
        self.switch_depth = 0
        self.labels = []
        self.depth = 0
        self.budget = 60

    # -- plumbing ----------------------------------------------------------
    def emit(self, text, tag=None):
        self.out.append((text, tag))

    def choose(self, name, options):
        """options: list of (alternative, weight)"""
        opts = [(a, w) for a, w in options if ('%s:%s' % (name, a)) not in self.o.exclude and w > 0]
        if not opts:
            opts = [options[0]]
        if self.force:
            fn, _, fa = self.force.partition(':')
            if fn == name and self.force not in self.features:
                for a, w in opts:
                    if a == fa:
                        self.features.add(self.force)
                        return a
        total = sum(w for _, w in opts)
        r = self.rng.random() * total
        for a, w in opts:
            r -= w
            if r <= 0:
                break
        self.features.add('%s:%s' % (name, a))
        return a

    def deep(self):
        return self.depth >= self.o.max_depth or self.budget <= 0

    def ident(self):
        if self.o.unicode_idents and self.rng.random() < 0.15:
            return self.rng.choice(UNICODE_IDENTS)
        return self.rng.choice(IDENT_POOL)

    # -- program / statements -------------------------------------------------
    def program(self):
        n = self.rng.randint(1, self.o.max_stmts)
        for _ in range(n):
            self.statement()
        return self.out

    def statements(self, lo=0, hi=3):
        for _ in range(self.rng.randint(lo, hi)):
            self.statement()

    def statement(self):
        self.depth += 1
        self.budget -= 1
        try:
            self._statement()
        finally:
            self.depth -= 1

    def _statement(self):
        deep = self.deep()
        w = 0 if deep else 1
        in_fn = self.fn_depth > 0 or not self.o.clean
        in_loop = self.loop_depth > 0 or not self.o.clean
        in_brk = in_loop or self.switch_depth > 0
        k = self.choose('stmt', [
            ('expr', 8), ('var', 3), ('empty', 0.5), ('block', 1.2 * w), ('if', 1.5 * w), ('ifelse', 1.2 * w),
            ('dowhile', 0.7 * w), ('while', 0.9 * w), ('for', 1.4 * w), ('forin', 0.9 * w),
            ('continue', 0.6 if in_loop else 0), ('break', 0.7 if in_brk else 0),
            ('return', 1.5 if in_fn else 0), ('with', 0.4 * w if self.o.allow_with else 0),
            ('switch', 0.8 * w), ('label', 0.6 * w), ('throw', 0.7), ('try', 0.9 * w), ('debugger', 0.2),
            ('funcdecl', 1.0 * w if (self.o.funcdecl_in_blocks or self.depth <= 1) else 0),
        ])
        getattr(self, 's_' + k)()

    def s_block(self):
        self.emit('{')
        self.statements(0, 3)
        self.emit('}')

    def s_var(self):
        self.emit('var')
        n = self.choose('var', [('noinit', 1), ('init', 3), ('multi', 1.5)])
        cnt = self.rng.randint(2, 3) if n == 'multi' else 1
        for i in range(cnt):
            if i:
                self.emit(',')
            self.emit(self.ident())
            if n == 'init' or (n == 'multi' and self.rng.random() < 0.6):
                self.emit('=')
                self.assignment(False, False)
        self.emit(';', 'semi')

    def s_empty(self):
        self.emit(';', 'empty')

    def s_expr(self):
        self.expression(False, True)
        self.emit(';', 'semi')

    def paren_expr(self):
        self.emit('(')
        self.expression(False, False)
        self.emit(')', 'hdr')

    def s_if(self):
        self.emit('if')
        self.paren_expr()
        self.statement()

    def s_ifelse(self):
        self.emit('if')
        self.paren_expr()
        # the consequent must not be an if without else (dangling else changes the derivation,
        # still valid: we simply let it happen; the oracle decides)
        self.statement()
        self.emit('else')
        self.statement()

    def body(self):
        self.loop_depth += 1
        try:
            self.statement()
        finally:
            self.loop_depth -= 1

    def s_dowhile(self):
        self.emit('do')
        self.body()
        self.emit('while')
        self.emit('(')
        self.expression(False, False)
        self.emit(')')
        self.emit(';', 'semi')

    def s_while(self):
        self.emit('while')
        self.paren_expr()
        self.body()

    def s_for(self):
        self.emit('for')
        self.emit('(')
        k = self.choose('for', [('init_empty', 1), ('init_expr', 2), ('init_var', 3)])
        if k == 'init_expr':
            self.expression(True, False)
        elif k == 'init_var':
            self.emit('var')
            for i in range(self.rng.randint(1, 2)):
                if i:
                    self.emit(',')
                self.emit(self.ident())
                if self.rng.random() < 0.7:
                    self.emit('=')
                    self.assignment(True, False)
        self.emit(';', 'forsemi')
        if self.choose('for', [('cond_empty', 1), ('cond_expr', 3)]) == 'cond_expr':
            self.expression(False, False)
        self.emit(';', 'forsemi')
        if self.choose('for', [('count_empty', 1), ('count_expr', 3)]) == 'count_expr':
            self.expression(False, False)
        self.emit(')', 'hdr')
        self.body()

    def s_forin(self):
        self.emit('for')
        self.emit('(')
        k = self.choose('forin', [('lhs', 2), ('var', 3), ('varinit', 0.5)])
        if k == 'lhs':
            self.target(False)
        else:
            self.emit('var')
            self.emit(self.ident())
            if k == 'varinit':
                self.emit('=')
                self.assignment(True, False)
        self.emit('in')
        self.expression(False, False)
        self.emit(')', 'hdr')
        self.body()

    def jump(self, word):
        self.emit(word)
        k = self.choose('jump', [('nolabel', 3), ('label', 1 if (self.labels or not self.o.clean) else 0)])
        if k == 'label':
            self.emit(self.rng.choice(self.labels) if self.labels else self.ident())
        self.emit(';', 'semi')

    def s_continue(self):
        self.jump('continue')

    def s_break(self):
        self.jump('break')

    def s_return(self):
        self.emit('return')
        if self.choose('return', [('expr', 3), ('none', 1)]) == 'expr':
            self.expression(False, False)
        self.emit(';', 'semi')

    def s_with(self):
        self.emit('with')
        self.paren_expr()
        self.statement()

    def s_switch(self):
        self.emit('switch')
        self.emit('(')
        self.expression(False, False)
        self.emit(')')
        self.emit('{')
        self.switch_depth += 1
        try:
            shape = self.choose('switch', [('case', 3), ('default', 1), ('empty', 0.5),
                                           ('default_middle', 1), ('emptycase', 1)])
            if shape == 'empty':
                pass
            else:
                ncase = self.rng.randint(1, 3)
                dpos = {'case': None, 'default': ncase, 'default_middle': self.rng.randint(0, max(0, ncase - 1)),
                        'emptycase': None}[shape]
                if shape == 'case' and self.rng.random() < 0.4:
                    dpos = ncase
                for i in range(ncase + 1):
                    if dpos == i:
                        self.emit('default')
                        self.emit(':')
                        self.statements(0, 2)
                    if i < ncase:
                        self.emit('case')
                        self.expression(False, False)
                        self.emit(':')
                        if not (shape == 'emptycase' and i == 0):
                            self.statements(0, 2)
        finally:
            self.switch_depth -= 1
        self.emit('}')

    def s_label(self):
        name = self.rng.choice(['foo', 'bar', 'outer', 'loop', 'L1', 'x'])
        while name in self.labels:
            name += '_'
        self.emit(name)
        self.emit(':')
        self.labels.append(name)
        try:
            self.statement()
        finally:
            self.labels.pop()

    def s_throw(self):
        self.emit('throw')
        self.expression(False, False)
        self.emit(';', 'semi')

    def block(self):
        self.emit('{')
        self.statements(0, 2)
        self.emit('}')

    def s_try(self):
        self.emit('try')
        self.block()
        k = self.choose('try', [('catch', 2), ('finally', 1), ('both', 1)])
        if k in ('catch', 'both'):
            self.emit('catch')
            self.emit('(')
            self.emit(self.ident())
            self.emit(')')
            self.block()
        if k in ('finally', 'both'):
            self.emit('finally')
            self.block()

    def s_debugger(self):
        self.emit('debugger')
        self.emit(';', 'semi')

    def function_rest(self):
        self.emit('(')
        k = self.choose('func', [('params0', 2), ('params1', 2), ('paramsN', 1)])
        n = {'params0': 0, 'params1': 1, 'paramsN': self.rng.randint(2, 4)}[k]
        names = []
        for i in range(n):
            if i:
                self.emit(',')
            nm = self.ident()
            while nm in names:
                nm += '_'
            names.append(nm)
            self.emit(nm)
        self.emit(')')
        self.emit('{')
        saved = (self.loop_depth, self.switch_depth, self.labels)
        self.loop_depth, self.switch_depth, self.labels = 0, 0, []
        self.fn_depth += 1
        try:
            if self.deep() or self.choose('func', [('emptybody', 1), ('body', 5)]) == 'emptybody':
                pass
            else:
                self.statements(1, 3)
        finally:
            self.fn_depth -= 1
            self.loop_depth, self.switch_depth, self.labels = saved
        self.emit('}')

    def s_funcdecl(self):
        self.emit('function')
        self.emit(self.ident())
        self.function_rest()

    # -- expressions -------------------------------------------------------------
    def expression(self, noin, nobf):
        self.depth += 1
        try:
            if not self.deep() and self.choose('expr', [('comma', 1), ('nocomma', 12)]) == 'comma':
                self.assignment(noin, nobf)
                self.emit(',')
                self.assignment(noin, False)
            else:
                self.assignment(noin, nobf)
        finally:
            self.depth -= 1

    def assignment(self, noin, nobf):
        self.depth += 1
        self.budget -= 1
        try:
            if not self.deep() and self.choose('expr', [('assign', 3), ('noassign', 7)]) == 'assign':
                self.target(nobf)
                op = self.choose('assignop', [(o, 4 if o == '=' else 1) for o in ASSIGNOPS])
                self.emit(op)
                self.assignment(noin, False)
            else:
                self.conditional(noin, nobf)
        finally:
            self.depth -= 1

    def conditional(self, noin, nobf):
        if not self.deep() and self.choose('expr', [('cond', 1), ('nocond', 9)]) == 'cond':
            self.binary(noin, nobf, 0)
            self.emit('?')
            # the implementation's NoIn middle operand is narrower than 11.12 allows; both sides
            # accept when the middle operand has no top-level `in`, which is what we generate
            self.assignment(noin, False)
            self.emit(':')
            self.assignment(noin, False)
        else:
            self.binary(noin, nobf, 0)

    def binary(self, noin, nobf, minprec):
        """emit an expression whose top-level operators all bind tighter than minprec"""
        if self.deep() or self.choose('expr', [('binary', 4), ('nobinary', 6)]) != 'binary':
            self.unary(nobf)
            return
        cands = [(o, p) for o, p in BINOPS if p > minprec and not (o == 'in' and noin)]
        if not cands:
            self.unary(nobf)
            return
        op = self.choose('binop', [(o, 1) for o, _ in cands])
        prec = dict(BINOPS)[op]
        self.depth += 1
        try:
            # left operand: same or tighter level (left associative), right: strictly tighter
            self.binary(noin, nobf, prec - 1)
            self.emit(op)
            self.binary(noin, False, prec)
        finally:
            self.depth -= 1

    def unary(self, nobf):
        if not self.deep() and self.choose('expr', [('unary', 2), ('nounary', 8)]) == 'unary':
            op = self.choose('unary', [(o, 1) for o in UNARYOPS])
            self.emit(op)
            self.depth += 1
            try:
                if op in ('++', '--'):
                    # operand of ++/-- : any unary expression is derivable; keep it an lhs mostly
                    if self.o.clean or self.rng.random() < 0.85:
                        self.target(False)
                    else:
                        self.unary(False)
                else:
                    self.unary(False)
            finally:
                self.depth -= 1
        else:
            self.postfix(nobf)

    def postfix(self, nobf):
        if self.choose('expr', [('postfix', 1), ('nopostfix', 9)]) == 'postfix':
            self.target(nobf)
            self.emit(self.choose('postfix', [('++', 1), ('--', 1)]), 'postfix')
        else:
            self.lhs(nobf, allow_call=True)

    def arguments(self):
        self.emit('(')
        for i in range(self.rng.choice([0, 1, 1, 2, 3])):
            if i:
                self.emit(',')
            self.assignment(False, False)
        self.emit(')')

    def lhs(self, nobf, allow_call):
        """LeftHandSideExpression"""
        self.depth += 1
        try:
            deep = self.deep()
            k = self.choose('expr', [('primary', 10), ('new_noargs', 0 if deep else 0.6),
                                     ('new_args', 0 if deep else 1.2)])
            if k == 'new_noargs':
                self.emit('new')
                self.member(False)
                return
            if k == 'new_args':
                self.emit('new')
                self.member(False)
                self.arguments()
            else:
                self.primary(nobf)
            # suffixes
            n = 0
            while n < 3 and not self.deep():
                s = self.choose('expr', [('nosuffix', 6), ('dot', 3), ('bracket', 1.5),
                                         ('call', 2 if allow_call else 0), ('dot_keyword', 0.4 if self.o.keyword_props else 0)])
                if s == 'nosuffix':
                    break
                n += 1
                if s == 'dot':
                    self.emit('.')
                    self.emit(self.ident())
                elif s == 'dot_keyword':
                    self.emit('.')
                    self.emit(self.rng.choice(sorted(RESERVED)))
                elif s == 'bracket':
                    self.emit('[')
                    self.expression(False, False)
                    self.emit(']')
                else:
                    self.arguments()
        finally:
            self.depth -= 1

    def target(self, nobf):
        """An assignment / update target: in clean mode an identifier with
        optional member suffixes (no early error), otherwise any LHS."""
        if not self.o.clean and self.rng.random() < 0.3:
            self.lhs(nobf, allow_call=True)
            return
        self.emit(self.ident())
        n = 0
        while n < 2 and self.rng.random() < 0.3 and not self.deep():
            n += 1
            if self.rng.random() < 0.7:
                self.emit('.')
                self.emit(self.ident())
            else:
                self.emit('[')
                self.expression(False, False)
                self.emit(']')

    def member(self, nobf):
        """MemberExpression without arguments-taking new (callee of new)"""
        self.primary(nobf)
        n = 0
        while n < 2 and self.rng.random() < 0.4:
            n += 1
            if self.rng.random() < 0.7:
                self.emit('.')
                self.emit(self.ident())
            else:
                self.emit('[')
                self.expression(False, False)
                self.emit(']')

    def primary(self, nobf):
        deep = self.deep()
        w = 0 if deep else 1
        k = self.choose('prim', [
            ('ident', 10), ('this', 0.7), ('number', 3), ('string', 2.5),
            ('regex', 1 if self.o.allow_regex else 0), ('true', 0.4), ('false', 0.4), ('null', 0.4),
            ('array', 1.2 * w), ('object', 0 if nobf else 1.0 * w), ('funcexpr', 0 if nobf else 0.8 * w),
            ('funcexpr_named', 0 if nobf else 0.4 * w), ('group', 1.2 * w)])
        if k == 'ident':
            self.emit(self.ident())
        elif k == 'this':
            self.emit('this')
        elif k == 'number':
            self.emit(self.rng.choice(NUMBERS_ANNEXB if self.rng.random() < 0.02 else NUMBERS), 'num')
        elif k == 'string':
            pool = STRINGS + (STRINGS_CONT if self.o.string_continuations else [])
            self.emit(self.rng.choice(STRINGS_ANNEXB if self.rng.random() < 0.02 else pool), 'str')
        elif k == 'regex':
            self.emit(self.rng.choice(REGEXES), 'regex')
        elif k in ('true', 'false', 'null'):
            self.emit(k)
        elif k == 'array':
            self.array()
        elif k == 'object':
            self.object()
        elif k in ('funcexpr', 'funcexpr_named'):
            self.emit('function')
            if k == 'funcexpr_named':
                self.emit(self.ident())
            self.function_rest()
        else:
            # redundant nesting: the parser keeps one grouping node for '((a))'
            n = 1 if self.choose('group', [('single', 4), ('nested', 1)]) == 'single' else self.rng.choice([2, 2, 3])
            for _ in range(n):
                self.emit('(')
            self.expression(False, False)
            for _ in range(n):
                self.emit(')')

    def array(self):
        self.emit('[')
        k = self.choose('array', [('plain', 5), ('empty', 1), ('elision_lead', 1), ('elision_mid', 1),
                                  ('elision_trail', 1), ('trailing_comma', 1), ('only_elision', 0.7)])
        if k == 'empty':
            pass
        elif k == 'only_elision':
            for _ in range(self.rng.randint(1, 3)):
                self.emit(',')
        else:
            if k == 'elision_lead':
                for _ in range(self.rng.randint(1, 2)):
                    self.emit(',')
            n = self.rng.randint(1, 3)
            for i in range(n):
                if i:
                    self.emit(',')
                    if k == 'elision_mid' and i == 1:
                        for _ in range(self.rng.randint(1, 2)):
                            self.emit(',')
                self.assignment(False, False)
            if k == 'elision_mid' and n == 1:
                self.emit(',')
                self.emit(',')
                self.assignment(False, False)
            if k == 'elision_trail':
                for _ in range(self.rng.randint(2, 3)):
                    self.emit(',')
            if k == 'trailing_comma':
                self.emit(',')
        self.emit(']')

    def prop_name(self):
        k = self.choose('object', [('ident_key', 5), ('string_key', 2), ('number_key', 1),
                                   ('keyword_key', 0.7 if self.o.keyword_props else 0), ('getset_key', 0.5)])
        if k == 'ident_key':
            self.emit(self.ident())
        elif k == 'string_key':
            self.emit(self.rng.choice(STRINGS))
        elif k == 'number_key':
            self.emit(self.rng.choice(NUMBERS))
        elif k == 'keyword_key':
            self.emit(self.rng.choice(sorted(RESERVED)))
        else:
            self.emit(self.rng.choice(['get', 'set']))

    def object(self):
        self.emit('{')
        if self.choose('object', [('empty', 1), ('nonempty', 5)]) == 'nonempty':
            n = self.rng.randint(1, 3)
            for i in range(n):
                if i:
                    self.emit(',')
                k = self.choose('object', [('data', 6), ('getter', 1 if self.o.accessors else 0),
                                           ('setter', 1 if self.o.accessors else 0)])
                if k == 'data':
                    self.prop_name()
                    self.emit(':')
                    self.assignment(False, False)
                else:
                    self.emit('get' if k == 'getter' else 'set', 'accessor')
                    nk = self.choose('accessor', [('ident_name', 4), ('string_name', 1), ('number_name', 1),
                                                   ('keyword_name', 1 if self.o.keyword_props else 0)])
                    if nk == 'ident_name':
                        self.emit(self.ident())
                    elif nk == 'string_name':
                        self.emit(self.rng.choice(STRINGS), 'str')
                    elif nk == 'number_name':
                        self.emit(self.rng.choice(NUMBERS), 'num')
                    else:
                        self.emit(self.rng.choice(sorted(RESERVED)))
                    self.emit('(')
                    if k == 'setter':
                        self.emit(self.ident())
                    self.emit(')')
                    self.emit('{')
                    self.fn_depth += 1
                    saved = (self.loop_depth, self.switch_depth, self.labels)
                    self.loop_depth, self.switch_depth, self.labels = 0, 0, []
                    try:
                        self.statements(0, 2)
                    finally:
                        self.fn_depth -= 1
                        self.loop_depth, self.switch_depth, self.labels = saved
                    self.emit('}')
            if self.choose('object', [('trailing_comma', 1), ('notrailing', 6)]) == 'trailing_comma':
                self.emit(',')
        self.emit('}')


def generate(rng, opts=None, force=None, tries=12):
    """One program as a token list; when ``force`` is given retry until that
    alternative was actually taken.  Returns (tokens, features)."""
    g = None
    for _ in range(tries):
        g = Gen(rng, opts, force)
        g.program()
        if force is None or force in g.features:
            break
    return g.out, g.features


# ---------------------------------------------------------------------------
# W3 layout rendering

LINE_TERMINATORS = ['\n', '\r', '\r\n', '\u2028', '\u2029']
SPACES = [' ', '  ', '\t', ' \t ', '\x0b', '\x0c', '\xa0', '\ufeff']


def _wordy(c):
    return c.isalnum() or c in '$_\\' or ord(c) > 127


def needs_space(a, b):
    """Would tokens a and b fuse or change class when written adjacently?"""
    if not a or not b:
        return False
    x, y = a[-1], b[0]
    if _wordy(x) and _wordy(y):
        return True
    if x in '+-' and x == y:
        return True
    if x == '/' and y in '/*':
        return True
    if y == '.' and a[0].isdigit() and not (a.startswith(('0x', '0X'))) and '.' not in a and 'e' not in a.lower():
        return True
    if x == '.' and y.isdigit():
        return True
    if a[0] in '.0123456789' and (len(a) < 2 or a[1] not in 'xX') and y == '.':
        return True
    return False


def render(tokens, style='space', rng=None, lt=None, comments=False):
    """
    style: 'space' one blank between tokens; 'tight' nothing where safe;
    'lines' a line terminator after every statement-ish token;
    'random' random white space / line terminators / comments.
    """
    texts = [t for t, _ in tokens]
    if style == 'space':
        return ' '.join(texts)
    out = []
    lt = lt or '\n'
    if style == 'random' and rng is not None and rng.random() < 0.25:
        # something in front of the first token: a byte order mark (white space in ES5), blanks, a line
        # terminator, a comment
        out.append(rng.choice(['\ufeff', '\ufeff' + lt, ' ', '\t ', lt, lt + '  ', '\ufeff \xa0'] +
                              (['/* head */ ', '// head' + lt, '\ufeff/*h' + lt + '*/'] if comments else [])))
    for i, (t, tag) in enumerate(tokens):
        if i:
            prev = texts[i - 1]
            if style == 'tight':
                sep = ' ' if needs_space(prev, t) else ''
            elif style == 'lines':
                sep = lt if (tokens[i - 1][1] in ('semi', 'empty') or prev in '{}') else ' '
            else:
                r = rng.random()
                if r < 0.45:
                    sep = ' '
                elif r < 0.60:
                    sep = ' ' if needs_space(prev, t) else ''
                elif r < 0.72:
                    sep = rng.choice(SPACES)
                elif r < 0.90:
                    sep = (lt if rng.random() < 0.7 else rng.choice(LINE_TERMINATORS)) + \
                        (' ' * rng.randint(0, 4) if rng.random() < 0.5 else '')
                elif comments and r < 0.95:
                    sep = rng.choice([' /* c%d */ ', '/*c%d*/', '/* c%d  */', '/** c%d **/', ' /*%d // */ ',
                                      '/*\U0001F600%d\U0001F600*/', '/*/ %d */', '/*/%d*/', '/***%d***/', '/* re\u0301sume\u0301 %d */']) % i \
                        if rng.random() < 0.6 else rng.choice(['/*m%d%s*/', '/**%s * m%d%s */', '/*%s%s%s m%d */', '/* f\x0cf m%d%s v\x0bv%s \x85 */',
                                                               '/*\x1c%s\x1d m%d \x1e%s*/']).replace(
                            '%s', lt).replace('%d', str(i))
                elif comments:
                    # bodies with trailing / leading white space, empty bodies, comment openers inside
                    body = rng.choice([' line %d', ' line %d  ', '%d\t', ' %d \xa0', '', ' /* %d', '/ %d //',
                                       ' \U0001F600 %d'])
                    sep = ' //' + (body % i if '%d' in body else body) + lt
                else:
                    sep = ' '
                if sep == '' and needs_space(prev, t):
                    sep = ' '
            out.append(sep)
        out.append(t)
    return ''.join(out)


# ---------------------------------------------------------------------------
# W5 mutation

MUTATION_ALPHABET = ['a', '1', '"s"', '/', '(', ')', '{', '}', '[', ']', ';', ',', ':', '?', '.', '=', '+', '++',
                     'in', 'new', 'function', 'var', 'if', 'else', 'for', 'return', '/r/', '-', '!', 'typeof',
                     'this', 'case', 'default', 'do', 'while', 'get', 'set', '=>', '...', '`', '#', '@', '\\']


def mutate_tokens(tokens, rng):
    """single token-level mutation; returns a new token list"""
    toks = list(tokens)
    if not toks:
        return [(rng.choice(MUTATION_ALPHABET), None)]
    i = rng.randrange(len(toks))
    k = rng.random()
    if k < 0.3:
        del toks[i]
    elif k < 0.45:
        toks.insert(i, toks[i])
    elif k < 0.6 and len(toks) > 1:
        j = rng.randrange(len(toks))
        toks[i], toks[j] = toks[j], toks[i]
    elif k < 0.8:
        toks[i] = (rng.choice(MUTATION_ALPHABET), None)
    else:
        toks.insert(i, (rng.choice(MUTATION_ALPHABET), None))
    return toks


HOSTILE_CHARS = ['"', "'", '\\', '/', '*', '(', ')', '{', '}', '[', ']', '\n', '\r', '\u2028', '\u2029', '\x00',
                 '\ufeff', '😀', '\ud800', '\udfff', '#', '@', '`', '.', '0', 'e', 'x', 'u', ';', ' ',
                 '=', '+', '-', '<', '>', '!', '?', ':', ',', '~', '^', '%', '&', '|', 'é', '‿', '́']


def mutate_chars(text, rng):
    if not text:
        return rng.choice(HOSTILE_CHARS)
    i = rng.randrange(len(text) + 1)
    k = rng.random()
    c = rng.choice(HOSTILE_CHARS)
    if k < 0.4:
        return text[:i] + c + text[i:]
    if k < 0.7:
        return text[:i] + text[i + 1:]
    return text[:i] + c + text[i + 1:]

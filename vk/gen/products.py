"""
Systematic product workloads shared by the printing monitors: operator x
operand-class combinations, member/call/new on every primary expression kind,
every statement kind as the body of if/else/loops/labels (DESIGN C01/C02).
The texts are *candidates*: the monitors keep those the real parser accepts.
"""

import itertools

OPERANDS = [
    ('ident', 'a'), ('int', '1'), ('int_dot', '1.'), ('dot_frac', '.5'), ('exp', '1e3'), ('hex', '0x1'),
    ('float', '1.5'), ('regex', '/re/'), ('regex_flags', '/re/g'), ('uplus', '+a'), ('uminus', '-a'),
    ('preinc', '++a'), ('predec', '--a'), ('postinc', 'a++'), ('postdec', 'a--'), ('typeof', 'typeof a'),
    ('void', 'void 0'), ('not', '!a'), ('bnot', '~a'), ('delete', 'delete a.b'), ('string', '"s"'),
    ('string_sq', "'s'"), ('this', 'this'), ('null', 'null'), ('true', 'true'), ('array', '[1]'),
    ('object', '{a:1}'), ('function', 'function(){}'), ('group', '(a, b)'), ('dot', 'a.b'), ('bracket', 'a[0]'),
    ('call', 'a()'), ('new', 'new A'), ('new_args', 'new A()'), ('cond', 'a ? b : c'), ('assign', 'a = b'),
    ('in', 'a in b'), ('instanceof', 'a instanceof b'), ('unicode_ident', '\xe9'), ('dollar', '$'),
    ('combining_ident', 'x\u0301'), ('keywordish', 'inx'), ('number_int_call', '1..toString()'),
]
BINARY = ['||', '&&', '|', '^', '&', '==', '!=', '===', '!==', '<', '>', '<=', '>=', 'instanceof', 'in',
          '<<', '>>', '>>>', '+', '-', '*', '/', '%']
ASSIGN = ['=', '*=', '/=', '%=', '+=', '-=', '<<=', '>>=', '>>>=', '&=', '^=', '|=']
UNARY = ['delete', 'void', 'typeof', '++', '--', '+', '-', '~', '!']
PRIMARIES = [('ident', 'a'), ('int', '1'), ('int_dot', '1.'), ('dot_frac', '.5'), ('exp', '1e3'), ('hex', '0x1'),
             ('string', '"s"'), ('regex', '/re/'), ('this', 'this'), ('null', 'null'), ('true', 'true'),
             ('array', '[1]'), ('object', '{a:1}'), ('function', 'function(){}'), ('named_function', 'function f(){}'),
             ('group', '(a)'), ('new_args', 'new A()'), ('new_noargs', 'new A'), ('call', 'a()')]
STATEMENTS = [
    ('block', '{ a; }'), ('empty_block', '{}'), ('var', 'var v = 1;'), ('empty', ';'), ('expr', 'a;'),
    ('if', 'if (b) c;'), ('ifelse', 'if (b) c; else d;'), ('for', 'for (;;) a;'), ('forin', 'for (k in o) a;'),
    ('while', 'while (b) c;'), ('dowhile', 'do c; while (b);'), ('continue', 'continue;'), ('break', 'break;'),
    ('return', 'return;'), ('return_expr', 'return a;'), ('with', 'with (o) a;'), ('switch', 'switch (a) { case 1: b; }'),
    ('label', 'l: a;'), ('throw', 'throw a;'), ('try', 'try { a; } catch (e) { b; }'), ('debugger', 'debugger;'),
    ('function', 'function f() { a; }'), ('regex_stmt', '/re/.test(a);'), ('unary_stmt', '++a;'),
    ('object_expr', '({a: 1});'), ('function_expr', '(function(){})();'), ('nested_if', 'if (b) if (c) d; else e;'),
]
CONTAINERS = [
    ('if', 'if (x) %s'), ('ifelse_then', 'if (x) %s else y;'), ('ifelse_else', 'if (x) y; else %s'),
    ('for', 'for (;;) %s'), ('forin', 'for (k in o) %s'), ('while', 'while (x) %s'), ('dowhile', 'do %s while (x);'),
    ('label', 'l: %s'), ('with', 'with (o) %s'), ('function_body', 'function f() { %s }'), ('block', '{ %s }'),
    ('case_body', 'switch (x) { case 1: %s default: %s }'), ('try_body', 'try { %s } finally { %s }'),
    ('program', '%s'), ('two', '%s %s'),
]


def binary_products():
    for op in BINARY:
        for (ln, l), (rn, r) in itertools.product(OPERANDS, OPERANDS):
            yield ('binary', op, ln, rn), 'x = %s %s %s;' % (l, op, r)


def binary_products_parenthesised():
    for op in BINARY + ASSIGN:
        for (ln, l), (rn, r) in itertools.product(OPERANDS, OPERANDS):
            yield ('binary_paren', op, ln, rn), 'x = (%s) %s (%s);' % (l, op, r)


def unary_products():
    for op in UNARY:
        for rn, r in OPERANDS:
            yield ('unary', op, rn), 'x = %s %s;' % (op, r)
            yield ('unary_paren', op, rn), 'x = %s(%s);' % (op, r)
            yield ('unary_stmt', op, rn), '%s %s;' % (op, r)
    for ln, l in OPERANDS:
        for op in ('++', '--'):
            yield ('postfix', op, ln), 'x = %s%s;' % (l, op)
            yield ('postfix_paren', op, ln), 'x = (%s)%s;' % (l, op)


def member_products():
    for pn, p in PRIMARIES:
        for form_name, form in (('dot', '%s.x'), ('bracket', '%s[0]'), ('call', '%s()'), ('new', 'new %s'),
                                ('new_args', 'new %s()'), ('new_member', 'new %s.x()'), ('dot_call', '%s.x()'),
                                ('paren_dot', '(%s).x'), ('paren_call', '(%s)()'), ('paren_new', 'new (%s)'),
                                ('dot_keyword', '%s.typeof'), ('tail', '%s'), ('assign', '%s = 1'),
                                ('in', '%s in o'), ('cond', '%s ? %s : %s'), ('comma', '%s, %s'),
                                ('arg', 'f(%s, %s)'), ('elem', '[%s, %s]'), ('prop', '({k: %s})')):
            text = form.replace('%s', p)
            yield ('member', form_name, pn), 'x = %s;' % text
            yield ('member_stmt', form_name, pn), '%s;' % text


def statement_products():
    for (cn, c), (sn, s) in itertools.product(CONTAINERS, STATEMENTS):
        yield ('statement', cn, sn), c.replace('%s', s)
    for (s1n, s1), (s2n, s2) in itertools.product(STATEMENTS, STATEMENTS):
        yield ('sequence', s1n, s2n), '%s %s' % (s1, s2)
        yield ('sequence_in_function', s1n, s2n), 'function f() { %s %s }' % (s1, s2)
    # runs of three where at least one statement is nothing but layout to a printer (';', '{}', ';;'): what
    # happens to a separator depends on the whole run of layout around it, up to the end of the output
    reduced = [x for x in STATEMENTS if x[0] in ('empty', 'empty_block', 'block', 'expr', 'return', 'var', 'function', 'if',
                                                 'dowhile', 'for')] + [('two_empty', ';;')]
    for (s1n, s1), (s2n, s2), (s3n, s3) in itertools.product(reduced, repeat=3):
        if not {s1n, s2n, s3n} & {'empty', 'empty_block', 'two_empty'}:
            continue
        yield ('triple', s1n, s2n, s3n), '%s %s %s' % (s1, s2, s3)
        yield ('triple_in_function', s1n, s2n, s3n), 'function f() { %s %s %s }' % (s1, s2, s3)
        if s3n in ('empty_block', 'block'):
            yield ('triple_in_block', s1n, s2n, s3n), 'if (x) { %s %s %s }' % (s1, s2, s3)


def suffix_sharing_pairs():
    """two token pairs in one program whose last / first characters coincide but whose need for a separating blank
    differs (a decision remembered under too short a key shows when the second pair is printed)"""
    pairs = [('base64.encode', '64 .toString(2)'), ('a1.b', '1 .b'), ('x10.y', '10 .y'), ('a0.b', '0 .b'),
             ('b1e3.c', '1e3.c'), ('a+ +b', 'a+b'), ('a- -b', 'a-b'), ('a+ ++b', 'a+b++'),
             ('a- --b', 'a-b--'), ('a++ +b', 'a+ +b'), ('x/ /re/', 'x/y'), ('typeof a', 'typeof(a)'), ('a in b', 'a.in'),
             ('a instanceof b', '"a"instanceof b'), ('return_ + 1', 'function f(){return +1}'), ('void 0', 'void(0)'),
             ('new F', 'new(F)'), ('a = 1 .e', 'a = 1.e1'), ('b = 0x10.c', 'b = 10 .c'), ('c = 1.5.d', 'c = 15 .d')]
    for first, second in pairs:
        for a, b in ((first, second), (second, first)):
            a_, b_ = (x if x.startswith('function') else 'p = %s;' % x for x in (a, b))
            yield ('suffix_sharing', first, a is first), '%s %s' % (a_, b_)
            yield ('suffix_sharing_in_function', first, a is first), 'function w() { %s %s }' % (a_, b_)


def closing_runs():
    """several constructs closing at once (a long run of layout without a token: closing braces, semicolons, line
    breaks, dedents), then something that is layout only as well, at the end of the output or not"""
    openers = [('block', '{', '}'), ('if', 'if (a) {', '}'), ('funcexpr', 'f = function () { return', ';}'),
               ('funcexpr_stmt', 'f = function () {', '};'), ('object', 'o = {k:', '}'), ('call', 'g(function () {', '})')]
    tails = [('empty_block', '{}'), ('semi', ';'), ('semi_block', '; {}'), ('block_semi', '{} ;'), ('none', ''),
             ('two_blocks', '{}{}'), ('block_in_block', '{{}}')]
    for (on, op, cl) in openers:
        for depth in (2, 3, 4, 5, 6, 8, 12):
            inner = 'x' if on == 'object' else 'x;'
            if on == 'funcexpr':
                body = op * depth + ' 1' + cl * depth
                body = ' '.join(['f = function () { return'] * depth) + ' 1' + ';}' * depth + ';'
            elif on == 'object':
                body = 'o = ' + '{k: ' * depth + '1' + '}' * depth + ';'
            else:
                body = (op + ' ') * depth + inner + (' ' + cl) * depth
                if on == 'call':
                    body += ';'
            for tn, tail in tails:
                for after in ('', ' y;'):
                    yield ('closing_run', on, depth, tn, bool(after)), '%s %s%s' % (body, tail, after)
                    yield ('closing_run_in_function', on, depth, tn, bool(after)), 'function w() { %s %s%s }' % (body, tail, after)


def keyword_adjacency():
    """keyword x following token class"""
    follow = [('ident', 'a'), ('number', '1'), ('dot_frac', '.5'), ('string', '"s"'), ('regex', '/re/'),
              ('paren', '(a)'), ('bracket', '[a]'), ('object', '{}'), ('unary_plus', '+a'), ('unary_minus', '-a'),
              ('not', '!a'), ('preinc', '++a'), ('function', 'function(){}'), ('this', 'this'),
              ('unicode', '\xe9'), ('dollar', '$a'), ('typeof', 'typeof a')]
    forms = [('return', 'function f() { return %s; }'), ('throw', 'throw %s;'), ('typeof', 'x = typeof %s;'),
             ('void', 'x = void %s;'), ('delete', 'delete %s;'), ('new', 'x = new %s;'), ('in', 'x = a in %s;'),
             ('instanceof', 'x = a instanceof %s;'), ('case', 'switch (x) { case %s: y; }'), ('else', 'if (x) y; else %s;'),
             ('do', 'do %s; while (x);'), ('var_init', 'var v = %s;'), ('forin_rhs', 'for (k in %s) y;'),
             ('for_var_in', 'for (var k in %s) y;'), ('while_body', 'while (x) %s;'), ('comma', 'x = (a, %s);'),
             ('return_paren', 'function f() { return(%s); }'), ('else_if', 'if (x) y; else if (%s) z;')]
    for (fn, f), (tn, t) in itertools.product(forms, follow):
        yield ('keyword', fn, tn), f % t


RESERVED_WORDS = ['break', 'case', 'catch', 'continue', 'debugger', 'default', 'delete', 'do', 'else', 'finally', 'for',
                  'function', 'if', 'in', 'instanceof', 'new', 'return', 'switch', 'this', 'throw', 'try', 'typeof', 'var',
                  'void', 'while', 'with', 'class', 'enum', 'export', 'extends', 'import', 'super', 'null', 'true', 'false',
                  'get', 'set']
SEPARATORS = [('none', ''), ('blank', ' '), ('lf', '\n'), ('block', '/**/'), ('line', '//c\n'), ('multiline', '/*\n*/'),
              ('ls', '\u2028')]


def keyword_property_products():
    """a reserved word as a property name: after '.', as an object key, as an accessor name - with every
    kind of separator on either side, followed by what the keyword itself would change the reading of"""
    for w in RESERVED_WORDS:
        for (an, a), (bn, b) in itertools.product(SEPARATORS, SEPARATORS):
            if an not in ('none', 'lf', 'line') and bn not in ('none', 'lf'):
                continue
            yield ('kwprop_div', w, an, bn), 'x = a.%s%s%s/ b / c;' % (a, w, b)
            yield ('kwprop_call_div', w, an, bn), 'a.%s%s%s(b) / c / d;' % (a, w, b)
            yield ('kwprop_continued', w, an, bn), 'x = a.%s%s%s\n+ b;' % (a, w, b)
            yield ('kwprop_key', w, an, bn), 'x = {%s%s%s: 1, b: 2};' % (a, w, b)
            if bn != 'none':
                yield ('kwprop_getter', w, an, bn), 'x = {get%s%s%s() {}, set %s(v) {}};' % (b, w, a, w)
            yield ('kwprop_postfix', w, an, bn), 'a.%s%s%s++\nb' % (a, w, b)


def accessor_products():
    names = ['a', '"s"', "'t'", '1', '.5', '0x1F', 'if', 'get', 'set', '$', 'é', '\\u0061', 'a1']
    for kw in ('get', 'set'):
        for (sn, sep), name in itertools.product(SEPARATORS, names):
            if sn == 'none' and name[0] not in '"\'.':
                continue
            arg = 'v' if kw == 'set' else ''
            yield ('accessor', kw, sn, name), 'x = {%s%s%s(%s) {}, k: 1};' % (kw, sep, name, arg)
            yield ('accessor_plain', kw, sn, name), 'x = %s%s%s' % (kw, sep, 'in y' if name == 'a' else '+ 1')
    for kw in ('get', 'set', 'o.get', 'x = set'):
        for (sn, sep) in SEPARATORS:
            if sn in ('none', 'blank', 'block'):
                continue        # a line terminator is needed for the statement to end
            for head in ('if (a)', 'while (a)', 'for (;;)', 'with (a)', 'for (k in o)'):
                yield ('accessor_word_then_header', kw, sn, head), '%s%s%s /re/.test(b)' % (kw, sep, head)
                yield ('accessor_word_then_header_div', kw, sn, head), '%s%s%s x = y / 2 / z' % (kw, sep, head)
    for w in ('get1', 'set2', 'getter', 'get_', 'set$', 'gets', 'get\\u0061'):
        yield ('accessor_like_name', w), 'x = {%s: %s}; %s++;' % (w, w, w)


def array_products():
    """array literals with holes in every position, nested in items of other arrays, object values and call
    arguments, before and after siblings"""
    inner = ['[]', '[,]', '[,,]', '[1]', '[1,]', '[1,,]', '[,1]', '[,,1]', '[,1,,]', '[1,,2]', '[1,2,,]', '[[,],]', '[[1,,],,]']
    outer = ['x = %s;', 'x = [%s, 2];', 'x = [0, %s, 2];', 'x = [0, %s];', 'x = [%s];', 'x = [{a: %s}, 1];', 'x = [g(%s), 2];',
             'x = [, %s, , ];', 'x = [[%s, 1], 2];', 'x = [%s, , 3];', 'f(%s, 1);', 'x = {a: %s, b: 1};', 'x = [%s ? 1 : 2, 3];',
             'x = [function () { return %s; }, 4];']
    for (i, a), (j, o) in itertools.product(enumerate(inner), enumerate(outer)):
        yield ('array', i, j), o % a
    for (i, a), (j, b) in itertools.product(enumerate(inner), enumerate(inner)):
        yield ('array_pair', i, j), 'x = [%s, %s];' % (a, b)
        yield ('array_in_array', i, j), 'x = [%s];' % a.replace('1', b, 1)


def noin_products():
    """'in' in the first clause of a for statement: excluded at every operator level of the NoIn productions
    (12.6), admitted again inside brackets, calls, functions and the middle operand of ?:"""
    inits = ['%s', 'a = %s', 'a += %s', 'a, %s', '%s, a', 'var v = %s', 'var u, v = %s', 'var u = 1, v = %s, w', 'var v = %s, w = 2',
             'a ? b : %s', 'a ? %s : b', '%s ? a : b', 'a || %s', 'a && %s', 'a | %s', 'a ^ %s', 'a & %s', 'a == %s', 'a !== %s',
             'a < %s', 'a instanceof %s', 'a << %s', 'a + %s', 'a * %s', '!%s', 'typeof %s', 'new %s', 'var v = a ? b : %s',
             'var v = a || %s', 'var v = w = %s']
    operands = ['x in y', '(x in y)', '[x in y]', 'f(x in y)', 'o[x in y]', '{k: x in y}', 'function () { return x in y; }',
                'x in y in z', '(x) in y', 'x in (y)', 'x', 'new C(x in y)']
    for (i, init), (j, op) in itertools.product(enumerate(inits), enumerate(operands)):
        yield ('noin', i, j), 'for (%s; ; ) ;' % (init % op)
        if i % 3 == 0:
            yield ('noin_forin', i, j), 'for (%s in o) ;' % (init % op)


ALL = [binary_products, binary_products_parenthesised, unary_products, member_products, statement_products,
       closing_runs, suffix_sharing_pairs, keyword_adjacency, keyword_property_products, accessor_products, array_products, noin_products]
LEXICAL = [keyword_property_products, accessor_products, noin_products]


def lexical_products():
    for gen in LEXICAL:
        for key, text in gen():
            yield key, text


def all_products():
    for gen in ALL:
        for key, text in gen():
            yield key, text

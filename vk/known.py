"""
Trigger predicates of known findings (DESIGN 2.6, ``suppress``).

A trigger is a *mechanism* predicate over the input text (and, when the
reference model accepts it, its token log): it says whether the text contains
the construct that exposes an open known finding.  Triggers deliberately
over-approximate (a false positive only skips one random case; a false
negative would turn a listed defect into an alarm).  They never look at case
hashes or random values.
"""

import re

from vk.ref import refjs

LT = '\n\r\u2028\u2029'
_WORD = re.compile(r'[A-Za-z_$][A-Za-z0-9_$]*')


def _skip_forward(text, pos):
    """(next position, saw line terminator) skipping white space and comments"""
    try:
        p, nl, _ = refjs.Scanner(text).skip(pos)
        return p, nl
    except refjs.RefSyntaxError:
        return len(text), True


def _lt_before(text, i):
    """is the token starting at i preceded (white space and comments ignored)
    by a line terminator?  over-approximating."""
    j = i
    while True:
        k = j
        while k > 0 and (text[k - 1] in LT or refjs.is_ws(text[k - 1])):
            if text[k - 1] in LT:
                return True
            k -= 1
        if k >= 2 and text[k - 2:k] == '*/':
            s = text.rfind('/*', 0, k - 2)
            if s < 0:
                return False
            if any(c in text[s:k] for c in LT):
                return True
            j = s
            continue
        return False


def _words(text):
    for m in _WORD.finditer(text):
        yield m


def _gap_starts(text, i):
    """candidate indices where the white space / comment gap ending at i may
    start (several when a '//' on the previous line may or may not be a
    comment); over-approximating"""
    out = []
    j = i
    for _ in range(50):
        k = j
        while k > 0 and (text[k - 1] in LT or refjs.is_ws(text[k - 1])):
            k -= 1
        out.append(k)
        if k >= 2 and text[k - 2:k] == '*/':
            s = text.rfind('/*', 0, k - 2)
            if s < 0:
                break
            j = s
            continue
        # a possible line comment ending the previous line
        if k < len(text) and text[k] in LT:
            ls = k
            while ls > 0 and text[ls - 1] not in LT:
                ls -= 1
            c = text.find('//', ls, k)
            if c >= 0:
                j = c
                continue
        break
    return out


def _ends_expression(c):
    return c.isalnum() or c in '$_)]}"\'/.' or ord(c) > 127


def t_postfix_after_newline(text, res):
    """'++' / '--' preceded by a line terminator (white space and comments
    ignored) where the token before the gap could end an expression"""
    for m in re.finditer(r'\+\+|--', text):
        if _lt_before(text, m.start()):
            for k in _gap_starts(text, m.start()):
                if k > 0 and _ends_expression(text[k - 1]):
                    return True
    return False


def t_restricted_then_semicolon(text, res):
    """break / continue / return, a line terminator, then an explicit ';'"""
    for m in _words(text):
        if m.group() in ('break', 'continue', 'return'):
            p, nl = _skip_forward(text, m.end())
            if nl and p < len(text) and text[p] == ';':
                return True
    return False


def t_restricted_keyword_key_newline(text, res):
    """break/continue/return/throw, a line terminator, then ':' (the word is
    an object-literal key or a label-like position)"""
    for m in _words(text):
        if m.group() in ('break', 'continue', 'return', 'throw'):
            p, nl = _skip_forward(text, m.end())
            if nl and text[p:p + 1] == ':':
                return True
    return False


def t_comment_after_restricted_keyword(text, res):
    """return / break / continue / throw followed on the same line by a
    block comment (the printer re-emits comments with a line break after them)"""
    # (the word as a property name - after '.', or as a key before ':' - is no keyword and starts no restricted
    # production: not an instance)
    after_dot = set()
    if res is not None:
        toks = res.tokens
        after_dot = set(t.start for i, t in enumerate(toks) if i and toks[i - 1].value == '.' and toks[i - 1].kind == 'punct')
    for m in _words(text):
        if m.group() in ('return', 'break', 'continue', 'throw') and m.start() not in after_dot:
            p = m.end()
            while p < len(text) and refjs.is_ws(text[p]):
                p += 1
            if text[p:p + 2] == '/*':
                return True
    return False


def t_keyword_property_then_newline_or_slash(text, res):
    """a reserved word used as a property name (after '.'), followed by a
    line terminator or by '/'"""
    for m in re.finditer(r'\.\s*([A-Za-z]+)', text):
        if m.group(1) in refjs.RESERVED:
            p, nl = _skip_forward(text, m.end())
            if nl or text[p:p + 1] == '/':
                return True
    return False


def t_getset_identifier(text, res):
    """'get' / 'set' used as a plain identifier and followed by white space
    and an identifier-like word (lexed as accessor keyword)"""
    for m in re.finditer(r'(?<![A-Za-z0-9_$])(get|set)(?=\s)', text):
        return True
    return False


def _walk_ref(node):
    stack = [node]
    while stack:
        n = stack.pop()
        if isinstance(n, refjs.R):
            yield n
            stack.extend(n.attrs.values())
        elif isinstance(n, list):
            stack.extend(n)


def t_funcdecl_then_regex(text, res):
    """a function declaration directly followed by a statement that starts
    with a regex literal (the LALR tables take the function for an expression
    when the next token is '/')"""
    if res is None:
        # over-approximate: 'function' ... '}' followed by '/'
        if 'function' not in text:
            return False
        for m in re.finditer(r'\}', text):
            p, _ = _skip_forward(text, m.end())
            if text[p:p + 1] == '/':
                return True
        return False
    for n in _walk_ref(res.tree):
        if n.kind == 'FuncDecl' and n.last + 1 < len(res.tokens):
            if res.tokens[n.last + 1].kind == 'regex':
                return True
    return False


def t_function_statement_continued(text, res):
    """a statement that starts with 'function' and goes on as an expression ('function f(){}, y',
    'function f(){} in y', 'function(){}.x'): the texts on which the reference parser's outcome changes when its
    switch for this known deviation is turned on"""
    if 'function' not in text:
        return False

    def outcome(**kw):
        try:
            return refjs.canon(refjs.parse(text, **kw).tree)
        except refjs.RefSyntaxError:
            return None
        except RecursionError:
            return 'too_deep'
    if res is not None:
        return False        # derivable as it stands: the deviation does not decide anything here
    return outcome(lenient_function_statement=True) is not None


def t_accessor_name_layout(text, res):
    """an accessor property whose name is not an identifier written after
    exactly one white-space character (string / number names, several blanks,
    a comment or line break between get/set and the name)"""
    for m in re.finditer(r'(?<![A-Za-z0-9_$])(get|set)(?![A-Za-z0-9_$])', text):
        p, _ = _skip_forward(text, m.end())
        if p >= len(text) or p == m.end():
            continue
        nxt = text[p]
        if nxt in '"\'' or nxt.isdigit() or nxt == '.':
            return True
        if refjs.is_id_start(nxt) or nxt == '\\':
            if p - m.end() != 1 or not re.match(r'\s', text[m.end()]):
                return True
    return False


def t_regex_after_identifier(text, res):
    """a regex literal directly after an identifier (only possible where the
    grammar does not permit division after it: a var declaration without
    initialiser, a break/continue label, ... and then only across a line
    break)"""
    if res is None:
        return False
    toks = res.tokens
    for i, t in enumerate(toks):
        if t.kind == 'regex' and i > 0:
            p = toks[i - 1]
            if p.kind in ('num', 'str', 'regex') or (p.kind == 'name' and p.value not in refjs.RESERVED) or \
                    (p.kind == 'name' and p.value in ('this', 'null', 'true', 'false')):
                return True
    return False


_NUMTOK = re.compile(r'[A-Za-z_$][A-Za-z0-9_$]*|0[xX][0-9a-fA-F]+|(?:[0-9]+\.?[0-9]*|\.[0-9]+)(?:[eE][+-]?[0-9]+)?')


def t_number_then_identifier(text, res):
    """a numeric literal immediately followed by an identifier start"""
    for m in _NUMTOK.finditer(text):
        if m.group()[0] in '.0123456789' and m.end() < len(text):
            c = text[m.end()]
            if c == '\\' or refjs.is_id_start(c):
                return True
    return False


_LEFT_SPINE = ('left', 'node', 'identifier', 'predicate', 'value', 'expr')


def t_function_expression_name_used_outside(text, res):
    """a named function expression whose name also occurs, as a variable
    reference or declaration, outside that function expression"""
    if res is None:
        return False
    from vk.ref import refscope
    occ = None
    for n in _walk_ref(res.tree):
        if n.kind == 'FuncExpr' and n.attrs.get('identifier') is not None:
            if occ is None:
                occ = [o for o in refscope.resolve(res).occ if o.role in ('ref', 'decl')]
            name = n.attrs['identifier'].attrs['value']
            for o in occ:
                if o.name == name and not (n.first <= o.tok <= n.last):
                    return True
    return False


def t_catch_parameter_redeclared(text, res):
    """a var or function declaration inside a catch block (not inside a nested
    function) with the name of the catch parameter"""
    if res is None:
        return False

    def declares(node, name):
        if isinstance(node, list):
            return any(declares(x, name) for x in node)
        if not isinstance(node, refjs.R):
            return False
        if node.kind in ('VarDecl', 'VarDeclNoIn', 'FuncDecl'):
            if node.attrs['identifier'].attrs['value'] == name:
                return True
        if node.kind in ('FuncDecl', 'FuncExpr', 'GetPropAssign', 'SetPropAssign'):
            return False
        return any(declares(v, name) for v in node.attrs.values())
    for n in _walk_ref(res.tree):
        if n.kind == 'Catch' and declares(n.attrs['elements'], n.attrs['identifier'].attrs['value']):
            return True
    return False


def t_object_trailing_comma(text, res):
    """a ',' directly followed by '}' (an object literal with a trailing comma)"""
    if res is None:
        return re.search(r',\s*\}', text) is not None
    toks = res.tokens
    for i in range(len(toks) - 1):
        if toks[i].value == ',' and toks[i + 1].value == '}' and toks[i].kind != 'string' and toks[i + 1].kind != 'string':
            return True
    return False


def t_accessor_restricted_name_newline(text, res):
    """an accessor property named break / continue / return / throw whose name
    is followed by a line terminator ('{get return<LF>() {}}')"""
    if res is None:
        return re.search(r'(?<![\w$])(?:get|set)(?![\w$])[\s\S]{0,40}?(?<![\w$])(?:break|continue|return|throw)(?![\w$])', text) is not None
    toks = res.tokens
    for n in _walk_ref(res.tree):
        if n.kind in ('GetPropAssign', 'SetPropAssign'):
            i = n.first + 1
            if i + 1 < len(toks) and toks[i].value in ('break', 'continue', 'return', 'throw') and toks[i + 1].nl_before:
                return True
    return False


def tt_comment_after_restricted_keyword(tree):
    """tree-level form: the operand of a return / throw / break / continue has
    a comment somewhere on its leftmost spine, i.e. the printer emits that
    comment (and a line break) directly after the keyword.  Comments that
    contain a line terminator already caused a semicolon in the source."""
    from vk import tree as vtree
    for path, n in vtree.reflect_walk(tree):
        k = vtree.kind_of(n)
        if k in ('Return', 'Throw', 'Break', 'Continue'):
            cur = getattr(n, 'expr', None) if k in ('Return', 'Throw') else getattr(n, 'identifier', None)
            hops = 0
            while cur is not None and vtree._is_node(cur) and hops < 200:
                hops += 1
                if getattr(cur, 'comments', None) is not None:
                    return True
                ck = vtree.kind_of(cur)
                nxt = None
                if ck in ('BinOp', 'Assign', 'Comma'):
                    nxt = cur.left
                elif ck in ('DotAccessor', 'BracketAccessor'):
                    nxt = cur.node
                elif ck == 'FunctionCall':
                    nxt = cur.identifier
                elif ck == 'Conditional':
                    nxt = cur.predicate
                elif ck == 'PostfixExpr':
                    nxt = cur.value
                cur = nxt
    return False


TREE_TRIGGERS = {'comment_after_restricted_keyword': tt_comment_after_restricted_keyword}


def trigger_tree(name, tree):
    f = TREE_TRIGGERS.get(name)
    if f is None:
        return False
    try:
        return bool(f(tree))
    except Exception:
        return True


TRIGGERS = {n[2:]: f for n, f in list(globals().items()) if n.startswith('t_') and callable(f)}


def trigger(name, text, res=None):
    f = TRIGGERS.get(name)
    if f is None:
        return False
    try:
        return bool(f(text, res))
    except Exception:
        return True

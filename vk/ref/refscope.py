"""
refscope - ES5 binding resolution (ECMA-262 10.2, 10.5, 12.14, 13) over a
refjs tree.

Scopes: the global scope, one per function (parameters, hoisted ``var`` and
function declarations of its body), a private scope holding only the name of a
named function *expression*, one per catch clause (the parameter).  Labels
live in their own namespace.  ``with`` and direct ``eval`` make resolution
undecidable statically: such programs are flagged ``dynamic``.

resolve(result) returns a list of occurrences in token order:
    Occ(token_index, name, role, binding)
role: 'decl' | 'ref' | 'label' | 'prop'; binding: an opaque id shared by all
occurrences of one variable, or None for a free (undeclared) name.
"""

import re
from vk.ref import refjs


_UESC = re.compile(r'\\u([0-9a-fA-F]{4})')


def _name(spelling):
    """the name a spelling stands for (ES5 7.6: unicode escapes in identifiers denote the character)"""
    return _UESC.sub(lambda m: chr(int(m.group(1), 16)), spelling) if '\\' in spelling else spelling


class Occ(object):
    __slots__ = ('tok', 'name', 'role', 'binding', 'scope_kind')

    def __init__(self, tok, name, role, binding=None, scope_kind=None):
        self.tok, self.name, self.role, self.binding, self.scope_kind = tok, name, role, binding, scope_kind

    def __repr__(self):
        return 'Occ(%d,%s,%s,%s)' % (self.tok, self.name, self.role, self.binding)


class Scope(object):
    _n = 0

    def __init__(self, kind, parent):
        Scope._n += 1
        self.id = Scope._n
        self.kind = kind            # 'global' | 'function' | 'fexpr' | 'catch'
        self.parent = parent
        self.names = set()

    @property
    def var_scope(self):
        s = self
        while s.kind not in ('global', 'function'):
            s = s.parent
        return s

    def lookup(self, name):
        s = self
        while s is not None:
            if name in s.names:
                return s
            s = s.parent
        return None

    def depth(self):
        d, s = 0, self
        while s.parent is not None:
            d += 1
            s = s.parent
        return d


class Resolution(object):
    def __init__(self):
        self.occ = []
        self.dynamic = False
        self.scopes = []
        self.max_depth = 0
        self.n_catch = 0
        self.n_named_fexpr = 0


def _hoist(node, scope, catch_names=(), catch_var_stays=False):
    """declare var / function names of a function body (not entering nested
    functions).  ``catch_var_stays`` is the second attribution dialect: a
    ``var`` inside a catch block that re-declares the catch parameter is not
    hoisted to the function."""
    if isinstance(node, list):
        for x in node:
            _hoist(x, scope, catch_names, catch_var_stays)
        return
    if not isinstance(node, refjs.R):
        return
    k = node.kind
    if k in ('FuncExpr', 'GetPropAssign', 'SetPropAssign'):
        return
    if k == 'FuncDecl':
        name = _name(node.attrs['identifier'].attrs['value'])
        if not (catch_var_stays and name in catch_names):
            scope.names.add(name)
        return
    if k in ('VarDecl', 'VarDeclNoIn'):
        name = _name(node.attrs['identifier'].attrs['value'])
        if not (catch_var_stays and name in catch_names):
            scope.names.add(name)
    if k == 'Catch':
        catch_names = tuple(catch_names) + (_name(node.attrs['identifier'].attrs['value']),)
    for v in node.attrs.values():
        _hoist(v, scope, catch_names, catch_var_stays)


def resolve(res, fexpr_name_in_enclosing_scope=False, catch_var_stays=False):
    """``fexpr_name_in_enclosing_scope`` is a *dialect switch used only to
    attribute disagreements to a known deviation* (the name of a named
    function expression declared in the scope around it, as JScript did); the
    oracle always uses the standard resolution."""
    out = Resolution()
    pending = []      # (Occ, scope) references resolved after hoisting
    labels = [[]]     # per function: stack of (name, id) of the enclosing labelled statements
    label_ids = [0]

    def new_scope(kind, parent):
        s = Scope(kind, parent)
        out.scopes.append(s)
        out.max_depth = max(out.max_depth, s.depth())
        return s

    def ident(node, role, scope):
        o = Occ(node.first, _name(node.attrs['value']), role, None, None)
        out.occ.append(o)
        if role in ('ref', 'decl'):
            pending.append((o, scope))
        return o

    def function(node, scope, params, body, name_node=None, declaration=False):
        fs = new_scope('function', scope)
        for p in params:
            fs.names.add(_name(p.attrs['value']))
        _hoist(body, fs, (), catch_var_stays)
        for p in params:
            ident(p, 'decl', fs)
        labels.append([])
        try:
            visit(body, fs)
        finally:
            labels.pop()

    def visit(node, scope):
        if isinstance(node, list):
            for x in node:
                visit(x, scope)
            return
        if not isinstance(node, refjs.R):
            return
        k = node.kind
        a = node.attrs
        if k == 'Identifier':
            if a['value'] == 'eval':
                pass
            ident(node, 'ref', scope)
        elif k == 'PropIdentifier':
            out.occ.append(Occ(node.first, a['value'], 'prop'))
        elif k == 'FuncDecl':
            ident(a['identifier'], 'decl', scope.var_scope if False else scope)
            function(node, scope, a['parameters'], a['elements'])
        elif k == 'FuncExpr':
            inner = scope
            if a['identifier'] is not None:
                out.n_named_fexpr += 1
                if fexpr_name_in_enclosing_scope:
                    # the deviating implementation forwards every declaration made in a catch block,
                    # other than the catch parameter itself, to the scope around the catch clause
                    nm = _name(a['identifier'].attrs['value'])
                    tgt = scope
                    while tgt.kind == 'catch' and nm not in tgt.names:
                        tgt = tgt.parent
                    tgt.names.add(nm)
                    ident(a['identifier'], 'decl', tgt)
                else:
                    inner = new_scope('fexpr', scope)
                    inner.names.add(_name(a['identifier'].attrs['value']))
                    ident(a['identifier'], 'decl', inner)
            function(node, inner, a['parameters'], a['elements'])
        elif k == 'GetPropAssign':
            visit(a['prop_name'], scope)
            function(node, scope, [], a['elements'])
        elif k == 'SetPropAssign':
            visit(a['prop_name'], scope)
            function(node, scope, [a['parameter']], a['elements'])
        elif k in ('VarDecl', 'VarDeclNoIn'):
            ident(a['identifier'], 'decl', scope)
            visit(a['initializer'], scope)
        elif k == 'Catch':
            cs = new_scope('catch', scope)
            cs.names.add(_name(a['identifier'].attrs['value']))
            out.n_catch += 1
            ident(a['identifier'], 'decl', cs)
            visit(a['elements'], cs)
        elif k == 'Label':
            o = ident(a['identifier'], 'label', scope)
            label_ids[0] += 1
            o.binding = ('label', label_ids[0])
            labels[-1].append((o.name, o.binding))
            try:
                visit(a['statement'], scope)
            finally:
                labels[-1].pop()
        elif k in ('Break', 'Continue'):
            if a['identifier'] is not None:
                o = ident(a['identifier'], 'label', scope)
                for name, b in reversed(labels[-1]):
                    if name == o.name:
                        o.binding = b
                        break
        elif k == 'With':
            out.dynamic = True
            visit(a['expr'], scope)
            visit(a['statement'], scope)
        elif k == 'FunctionCall':
            f = a['identifier']
            if isinstance(f, refjs.R) and f.kind == 'Identifier' and _name(f.attrs['value']) == 'eval':
                out.dynamic = True
            visit(f, scope)
            visit(a['args'], scope)
        elif k == 'Assign' and a.get('op') == ':':
            # object literal property: the key is a property name
            visit(a['left'], scope)
            visit(a['right'], scope)
        else:
            # generic: children in source order
            kids = [v for v in a.values() if isinstance(v, (refjs.R, list))]
            flat = []
            for v in kids:
                flat.append(v)

            def first_tok(x):
                if isinstance(x, refjs.R):
                    return x.first
                for y in x:
                    if isinstance(y, refjs.R):
                        return y.first
                return 1 << 30
            for v in sorted(flat, key=first_tok):
                visit(v, scope)

    g = new_scope('global', None)
    _hoist(res.tree.attrs['children'], g, (), catch_var_stays)
    visit(res.tree.attrs['children'], g)
    for o, scope in pending:
        s = scope.lookup(o.name)
        if s is not None:
            o.binding = (s.id, o.name)
            o.scope_kind = s.kind
    out.occ.sort(key=lambda o: o.tok)
    return out


def selftest():
    def names(src):
        r = resolve(refjs.parse(src))
        return [(o.name, o.role, o.binding is not None, o.scope_kind) for o in r.occ]
    n = names('var a; function f(b) { var c; return a + b + c + d; } f(a);')
    assert n == [('a', 'decl', True, 'global'), ('f', 'decl', True, 'global'), ('b', 'decl', True, 'function'),
                 ('c', 'decl', True, 'function'), ('a', 'ref', True, 'global'), ('b', 'ref', True, 'function'),
                 ('c', 'ref', True, 'function'), ('d', 'ref', False, None), ('f', 'ref', True, 'global'),
                 ('a', 'ref', True, 'global')], n
    # hoisting: use before declaration binds to the local
    r = resolve(refjs.parse('var x; function f() { x = 1; var x; }'))
    assert r.occ[2].binding == r.occ[3].binding != r.occ[0].binding
    # a named function expression's name is not visible outside
    r = resolve(refjs.parse('function o() { var f = function g() { return g; }; return g; }'))
    gs = [o for o in r.occ if o.name == 'g']
    assert gs[0].binding == gs[1].binding and gs[0].binding is not None and gs[2].binding is None, gs
    # catch parameter shadows, var in catch hoists to the function
    r = resolve(refjs.parse('function f(e) { try {} catch (e) { e; var v; } return e + v; }'))
    es = [o for o in r.occ if o.name == 'e']
    assert es[0].binding != es[1].binding and es[1].binding == es[2].binding and es[3].binding == es[0].binding
    vs = [o for o in r.occ if o.name == 'v']
    assert vs[0].binding == vs[1].binding and vs[0].scope_kind == 'function'
    # labels and property names have their own roles
    n = names('a: for (;;) { break a; } o.a = {a: a};')
    assert [x[1] for x in n] == ['label', 'label', 'ref', 'prop', 'prop', 'ref'], n
    r = resolve(refjs.parse('a: for (;;) { a: { break a; } continue a; } function f() { a: break a; }'))
    ls = [o.binding for o in r.occ if o.role == 'label']
    assert ls[0] == ls[3] and ls[1] == ls[2] and ls[0] != ls[1] and ls[4] == ls[5] and ls[4] != ls[0], ls
    r = resolve(refjs.parse('function o() { var f = function g() { return g; }; return g; }'), True)
    gs = [o for o in r.occ if o.name == 'g']
    assert gs[0].binding == gs[1].binding == gs[2].binding is not None
    assert resolve(refjs.parse('with (o) x;')).dynamic and resolve(refjs.parse('eval("x")')).dynamic
    return True

"""
refjs - an ES5.1 front end written from ECMA-262 5.1 clause 7 and Annex A.

Independent of the implementation's technique: recursive descent (the
implementation is LALR), the scanner's goal symbol (InputElementRegExp /
InputElementDiv) decided by the parser's position in the grammar instead of a
previous-token heuristic, identifier classes from ``unicodedata``, automatic
semicolon insertion implemented literally from 7.9.1.

Dialect (fixed by the property texts): non-strict ES5.1; early errors are not
checked; FunctionDeclaration admitted wherever a Statement is; no ES2015
leniencies.  Annex B forms (legacy octal literals / octal escapes) are parsed
but flagged in ``Result.flags`` so that callers can classify such inputs as
``oracle_uncertain``.

The tree uses the vocabulary of the implementation's public ReprWalker view
(DESIGN appendix A) so that a difference always means a different derivation.
"""

import re
import unicodedata

LT_CHARS = '\n\r\u2028\u2029'
_WS_BASE = '\t\x0b\x0c \xa0\ufeff'


def is_ws(c):
    return c in _WS_BASE or (ord(c) > 127 and unicodedata.category(c) == 'Zs')


_LETTER_CATS = ('Lu', 'Ll', 'Lt', 'Lm', 'Lo', 'Nl')
_PART_CATS = ('Mn', 'Mc', 'Nd', 'Pc')


def is_id_start(c):
    if c < '\x80':
        return c.isalpha() or c in '$_'
    return unicodedata.category(c) in _LETTER_CATS


def is_id_part(c):
    if c < '\x80':
        return c.isalnum() or c in '$_'
    if c in '\u200c\u200d':
        return True
    cat = unicodedata.category(c)
    return cat in _LETTER_CATS or cat in _PART_CATS


KEYWORDS = frozenset('''break do instanceof typeof case else new var catch finally return void
continue for switch while debugger function this with default if throw delete in try'''.split())
FUTURE_RESERVED = frozenset('class enum extends super const export import'.split())
LITERAL_WORDS = frozenset(('null', 'true', 'false'))
RESERVED = KEYWORDS | FUTURE_RESERVED | LITERAL_WORDS

PUNCTUATORS = sorted('''{ } ( ) [ ] . ; , < > <= >= == != === !== + - * % ++ -- << >> >>> & | ^ ! ~
&& || ? : = += -= *= %= <<= >>= >>>= &= |= ^= / /='''.split(), key=len, reverse=True)
_PUNCT_BY_FIRST = {}
for _p in PUNCTUATORS:
    _PUNCT_BY_FIRST.setdefault(_p[0], []).append(_p)

ASSIGN_OPS = frozenset('= *= /= %= += -= <<= >>= >>>= &= ^= |='.split())
BINARY_PREC = {
    '||': 1, '&&': 2, '|': 3, '^': 4, '&': 5,
    '==': 6, '!=': 6, '===': 6, '!==': 6,
    '<': 7, '>': 7, '<=': 7, '>=': 7, 'instanceof': 7, 'in': 7,
    '<<': 8, '>>': 8, '>>>': 8,
    '+': 9, '-': 9,
    '*': 10, '/': 10, '%': 10,
}
UNARY_OPS = frozenset(['delete', 'void', 'typeof', '++', '--', '+', '-', '~', '!'])
LHS_KINDS = frozenset(['Identifier', 'This', 'Number', 'String', 'Regex', 'Boolean', 'Null', 'Array',
                       'Object', 'FuncExpr', 'GroupingOp', 'DotAccessor', 'BracketAccessor', 'NewExpr',
                       'FunctionCall'])


class RefSyntaxError(Exception):
    def __init__(self, kind, pos, msg='', uncertain=False):
        Exception.__init__(self, '%s at %d %s' % (kind, pos, msg))
        self.kind = kind
        self.pos = pos
        self.msg = msg
        # the specification can be read either way on this input: callers
        # count it oracle_uncertain and never base a verdict on it
        self.uncertain = uncertain


class LineTable(object):
    """ES5 line counting: LF, CR, CRLF (one), U+2028, U+2029."""

    def __init__(self, src):
        starts = [0]
        i, n = 0, len(src)
        while i < n:
            c = src[i]
            if c == '\r':
                if i + 1 < n and src[i + 1] == '\n':
                    i += 1
                starts.append(i + 1)
            elif c in '\n\u2028\u2029':
                starts.append(i + 1)
            i += 1
        self.starts = starts

    def line(self, pos):
        import bisect
        return bisect.bisect_right(self.starts, pos)

    def col(self, pos):
        return pos - self.starts[self.line(pos) - 1] + 1

    def linecol(self, pos):
        ln = self.line(pos)
        return ln, pos - self.starts[ln - 1] + 1

    def offset(self, line, col):
        if line < 1 or line > len(self.starts):
            return None
        return self.starts[line - 1] + col - 1


class Tok(object):
    __slots__ = ('kind', 'value', 'start', 'end', 'nl_before', 'comments', 'goal', 'flags', 'index')

    def __init__(self, kind, value, start, end, nl_before, comments, flags=()):
        self.kind = kind
        self.value = value
        self.start = start
        self.end = end
        self.nl_before = nl_before
        self.comments = comments
        self.goal = None
        self.flags = flags
        self.index = -1

    def __repr__(self):
        return 'Tok(%s,%r,%d)' % (self.kind, self.value, self.start)


class Comment(object):
    __slots__ = ('kind', 'text', 'start', 'end', 'has_lt')

    def __init__(self, kind, text, start, end, has_lt):
        self.kind, self.text, self.start, self.end, self.has_lt = kind, text, start, end, has_lt


HEX = '0123456789abcdefABCDEF'


class Scanner(object):
    def __init__(self, src):
        self.src = src
        self.n = len(src)

    def skip(self, pos):
        """skip white space, line terminators and comments; returns
        (pos, newline_seen, comments)"""
        src, n = self.src, self.n
        nl = False
        comments = []
        while pos < n:
            c = src[pos]
            if c in LT_CHARS:
                nl = True
                pos += 1
            elif is_ws(c):
                pos += 1
            elif c == '/' and pos + 1 < n and src[pos + 1] == '/':
                e = pos + 2
                while e < n and src[e] not in LT_CHARS:
                    e += 1
                comments.append(Comment('line', src[pos:e], pos, e, False))
                pos = e
            elif c == '/' and pos + 1 < n and src[pos + 1] == '*':
                e = src.find('*/', pos + 2)
                if e < 0:
                    raise RefSyntaxError('unterminated_comment', pos)
                e += 2
                text = src[pos:e]
                has_lt = any(ch in text for ch in LT_CHARS)
                if has_lt:
                    nl = True
                comments.append(Comment('block', text, pos, e, has_lt))
                pos = e
            else:
                break
        return pos, nl, comments

    def scan(self, pos, regex=False):
        src, n = self.src, self.n
        start, nl, comments = self.skip(pos)
        if start >= n:
            return Tok('eof', '', n, n, nl, comments)
        c = src[start]
        flags = ()
        if is_id_start(c) or c == '\\':
            end, flags = self.scan_name(start)
            return Tok('name', src[start:end], start, end, nl, comments, flags)
        if c.isdigit() and c < '\x80' or (c == '.' and start + 1 < n and src[start + 1] in '0123456789'):
            end, flags = self.scan_number(start)
            return Tok('num', src[start:end], start, end, nl, comments, flags)
        if c in '"\'':
            end, flags = self.scan_string(start)
            return Tok('str', src[start:end], start, end, nl, comments, flags)
        if c == '/' and regex:
            end, flags = self.scan_regex(start)
            t = Tok('regex', src[start:end], start, end, nl, comments, flags)
            t.goal = 'regex'
            return t
        for p in _PUNCT_BY_FIRST.get(c, ()):
            if src.startswith(p, start):
                t = Tok('punct', p, start, start + len(p), nl, comments)
                if c == '/':
                    t.goal = 'div'
                return t
        raise RefSyntaxError('illegal_character', start, repr(c))

    def _unicode_escape(self, pos):
        # at the backslash
        src = self.src
        if src[pos + 1:pos + 2] != 'u':
            raise RefSyntaxError('bad_identifier_escape', pos)
        h = src[pos + 2:pos + 6]
        if len(h) != 4 or any(ch not in HEX for ch in h):
            raise RefSyntaxError('bad_identifier_escape', pos)
        return chr(int(h, 16)), pos + 6

    def scan_name(self, start):
        src, n = self.src, self.n
        pos = start
        escaped = False
        first = True
        while pos < n:
            c = src[pos]
            if c == '\\':
                ch, npos = self._unicode_escape(pos)
                ok = is_id_start(ch) if first else is_id_part(ch)
                if not ok:
                    raise RefSyntaxError('bad_identifier_escape', pos)
                escaped = True
                pos = npos
            elif (is_id_start(c) if first else is_id_part(c)):
                pos += 1
            else:
                break
            first = False
        return pos, (('escaped',) if escaped else ())

    def scan_number(self, start):
        src, n = self.src, self.n
        pos = start
        flags = ()
        if src[pos] == '0' and src[pos + 1:pos + 2] in ('x', 'X'):
            pos += 2
            d = pos
            while pos < n and src[pos] in HEX:
                pos += 1
            if pos == d:
                raise RefSyntaxError('bad_number', start)
        elif src[pos] == '0' and pos + 1 < n and src[pos + 1] in '01234567':
            # Annex B.1.1 legacy octal
            pos += 1
            while pos < n and src[pos] in '01234567':
                pos += 1
            flags = ('annexb_octal',)
        else:
            if src[pos] == '.':
                pos += 1
                while pos < n and src[pos] in '0123456789':
                    pos += 1
            else:
                if src[pos] == '0':
                    pos += 1
                else:
                    while pos < n and src[pos] in '0123456789':
                        pos += 1
                if pos < n and src[pos] == '.':
                    pos += 1
                    while pos < n and src[pos] in '0123456789':
                        pos += 1
            if pos < n and src[pos] in 'eE':
                q = pos + 1
                if q < n and src[q] in '+-':
                    q += 1
                d = q
                while q < n and src[q] in '0123456789':
                    q += 1
                if q == d:
                    raise RefSyntaxError('bad_number_exponent', start)
                pos = q
        if pos < n and (src[pos] in '0123456789' or is_id_start(src[pos]) or src[pos] == '\\'):
            raise RefSyntaxError('number_followed_by_identifier_or_digit', pos)
        return pos, flags

    def scan_string(self, start):
        src, n = self.src, self.n
        q = src[start]
        pos = start + 1
        flags = set()
        while True:
            if pos >= n:
                raise RefSyntaxError('unterminated_string', start)
            c = src[pos]
            if c == q:
                return pos + 1, tuple(sorted(flags))
            if c in LT_CHARS:
                raise RefSyntaxError('unterminated_string', start)
            if c == '\\':
                if pos + 1 >= n:
                    raise RefSyntaxError('unterminated_string', start)
                e = src[pos + 1]
                if e in LT_CHARS:
                    flags.add('continuation')
                    pos += 3 if (e == '\r' and src[pos + 2:pos + 3] == '\n') else 2
                elif e == 'x':
                    h = src[pos + 2:pos + 4]
                    if len(h) != 2 or any(ch not in HEX for ch in h):
                        raise RefSyntaxError('bad_string_escape', pos)
                    pos += 4
                elif e == 'u':
                    h = src[pos + 2:pos + 6]
                    if len(h) != 4 or any(ch not in HEX for ch in h):
                        raise RefSyntaxError('bad_string_escape', pos)
                    pos += 6
                elif e == '0' and src[pos + 2:pos + 3] not in tuple('0123456789'):
                    pos += 2
                elif e in '01234567':
                    # Annex B.1.2 octal escape
                    flags.add('annexb_octal_escape')
                    pos += 2
                    k = 0
                    lim = 2 if e in '0123' else 1
                    while k < lim and pos < n and src[pos] in '01234567':
                        pos += 1
                        k += 1
                elif e in '89':
                    raise RefSyntaxError('bad_string_escape', pos)
                else:
                    # SingleEscapeCharacter or NonEscapeCharacter
                    if ord(e) > 127:
                        flags.add('non_ascii_escape')
                    pos += 2
            else:
                pos += 1

    def scan_regex(self, start):
        src, n = self.src, self.n
        pos = start + 1
        if pos >= n or src[pos] in LT_CHARS or src[pos] == '*' or src[pos] == '/':
            raise RefSyntaxError('bad_regex', start)
        in_class = False
        while True:
            if pos >= n:
                raise RefSyntaxError('unterminated_regex', start)
            c = src[pos]
            if c in LT_CHARS:
                raise RefSyntaxError('unterminated_regex', start)
            if c == '\\':
                if pos + 1 >= n or src[pos + 1] in LT_CHARS:
                    raise RefSyntaxError('unterminated_regex', start)
                pos += 2
                continue
            if in_class:
                if c == ']':
                    in_class = False
            elif c == '[':
                in_class = True
            elif c == '/':
                pos += 1
                break
            pos += 1
        flags = set()
        while pos < n:
            c = src[pos]
            if c == '\\':
                ch, npos = self._unicode_escape(pos)
                if not is_id_part(ch):
                    raise RefSyntaxError('bad_regex_flags', pos)
                flags.add('escaped_flags')
                pos = npos
            elif is_id_part(c):
                if not (c.isalnum() and c < '\x80'):
                    flags.add('exotic_flags')
                pos += 1
            else:
                break
        return pos, tuple(sorted(flags))


class R(object):
    """A neutral tree node."""
    __slots__ = ('kind', 'attrs', 'first', 'last', 'optok')

    def __init__(self, kind, first=-1, last=-1, optok=None, **attrs):
        self.kind = kind
        self.attrs = attrs
        self.first = first
        self.last = last
        self.optok = optok

    def __repr__(self):
        return 'R(%s)' % self.kind


def canon(r):
    """Canonical nested-tuple form of a neutral tree (positions ignored)."""
    if isinstance(r, R):
        return (r.kind, tuple(sorted((k, canon(v)) for k, v in r.attrs.items())))
    if isinstance(r, list):
        return tuple(canon(x) for x in r)
    return r


class Result(object):
    def __init__(self):
        self.tree = None
        self.tokens = []
        self.asi = []          # (token index the semicolon is inserted *after* (-1: none), rule, offset)
        self.flags = set()
        self.comments = []
        self.slash = {}        # offset -> 'div' | 'regex'
        self.lines = None


class Parser(object):
    # dialect switches used only to *classify* disagreements by mechanism
    # (a known deviation of the implementation = one switch); the oracle
    # itself always runs with all of them off.
    lenient_function_statement = False

    def __init__(self, src, **dialect):
        for k, v in dialect.items():
            if not hasattr(type(self), k):
                raise TypeError(k)
            setattr(self, k, v)
        self.src = src
        self.sc = Scanner(src)
        self.res = Result()
        self.res.lines = LineTable(src)
        self.tokens = self.res.tokens
        self.tok = None
        self.prev_end = 0
        self.in_function = 0
        self.depth = 0

    # -- token plumbing ---------------------------------------------------
    def advance(self):
        """commit the current look-ahead token, scan the next (div goal)."""
        t = self.tok
        if t is not None and t.kind != 'eof':
            t.index = len(self.tokens)
            self.tokens.append(t)
            self.prev_end = t.end
            if t.flags:
                self.res.flags.update(t.flags)
            if t.value[:1] == '/' and t.kind in ('punct', 'regex'):
                self.res.slash[t.start] = t.goal
            for c in t.comments:
                self.res.comments.append(c)
        self.tok = self.sc.scan(self.prev_end, False)
        return t

    def rescan_regex(self):
        t = self.tok
        nt = self.sc.scan(self.prev_end, True)
        assert nt.start == t.start
        self.tok = nt

    def is_punct(self, v):
        t = self.tok
        return t.kind == 'punct' and t.value == v

    def is_word(self, v):
        t = self.tok
        return t.kind == 'name' and t.value == v

    def error(self, kind, tok=None):
        tok = tok or self.tok
        raise RefSyntaxError(kind, tok.start, 'unexpected %s %r' % (tok.kind, tok.value[:20]))

    def expect_punct(self, v):
        if not self.is_punct(v):
            self.error('expected_%s' % v)
        return self.advance()

    def expect_word(self, v):
        if not self.is_word(v):
            self.error('expected_%s' % v)
        return self.advance()

    def last_index(self):
        return len(self.tokens) - 1

    def next_index(self):
        return len(self.tokens)

    def consume_semicolon(self, rule_hint=None):
        """7.9.1: explicit ';', or insertion before an offending token that is
        preceded by a LineTerminator or is '}', or at the end of input."""
        t = self.tok
        if t.kind == 'punct' and t.value == ';':
            self.advance()
            return True
        if t.kind == 'eof':
            self.res.asi.append((self.last_index(), rule_hint or 'eof', t.start))
            return False
        if t.kind == 'punct' and t.value == '}':
            self.res.asi.append((self.last_index(), rule_hint or 'rbrace', t.start))
            return False
        if t.nl_before:
            self.res.asi.append((self.last_index(), rule_hint or 'newline', t.start))
            return False
        self.error('missing_semicolon')

    # -- program / statements ------------------------------------------------
    def parse_program(self):
        self.advance()
        first = self.next_index()
        body = self.parse_source_elements(top=True)
        if self.tok.kind != 'eof':
            self.error('unexpected_token')
        # trailing comments
        for c in self.tok.comments:
            self.res.comments.append(c)
        node = R('ES5Program', first, self.last_index(), children=body)
        self.res.tree = node
        return self.res

    def parse_source_elements(self, top=False):
        out = []
        while True:
            t = self.tok
            if t.kind == 'eof':
                break
            if t.kind == 'punct' and t.value == '}' and not top:
                break
            out.append(self.parse_statement())
        return out

    def note_escaped(self, t):
        # an escape sequence is an ordinary spelling of its character (7.6); only a name that *decodes* to a
        # reserved word can be read either way in ES5.1 and is left to no verdict
        decoded = re.sub(r'\\u([0-9a-fA-F]{4})', lambda m: chr(int(m.group(1), 16)), t.value)
        # (get / set are contextual: whether an escaped spelling still introduces an accessor is open too)
        self.res.flags.add('escaped_identifier' if (decoded in RESERVED or decoded in ('get', 'set')) else 'escaped_name')

    def ident(self):
        t = self.tok
        if t.kind != 'name':
            self.error('expected_identifier')
        if t.value in RESERVED:
            self.error('reserved_word_as_identifier')
        if 'escaped' in t.flags:
            self.note_escaped(t)
        self.advance()
        i = self.last_index()
        return R('Identifier', i, i, value=t.value)

    def parse_statement(self):
        self.depth += 1
        if self.depth > 400:
            raise RefSyntaxError('too_deep', self.tok.start)
        try:
            return self._parse_statement()
        finally:
            self.depth -= 1

    def _parse_statement(self):
        t = self.tok
        first = self.next_index()
        if t.kind == 'punct':
            if t.value == '{':
                return self.parse_block()
            if t.value == ';':
                self.advance()
                return R('EmptyStatement', first, first, value=';')
        elif t.kind == 'name' and 'escaped' not in t.flags:
            v = t.value
            if v == 'var':
                self.advance()
                decls = self.parse_var_decls(False)
                self.consume_semicolon()
                return R('VarStatement', first, self.last_index(), children=decls)
            if v == 'if':
                return self.parse_if()
            if v == 'do':
                self.advance()
                body = self.parse_statement()
                self.expect_word('while')
                self.expect_punct('(')
                pred = self.parse_expression(False)
                self.expect_punct(')')
                self.consume_semicolon()
                return R('DoWhile', first, self.last_index(), predicate=pred, statement=body)
            if v == 'while':
                self.advance()
                self.expect_punct('(')
                pred = self.parse_expression(False)
                self.expect_punct(')')
                body = self.parse_statement()
                return R('While', first, self.last_index(), predicate=pred, statement=body)
            if v == 'for':
                return self.parse_for()
            if v in ('continue', 'break'):
                self.advance()
                label = None
                nt = self.tok
                if nt.kind == 'name' and not nt.nl_before and nt.value not in RESERVED:
                    label = self.ident()
                    self.consume_semicolon()
                else:
                    self.consume_semicolon('restricted' if (nt.nl_before and nt.kind != 'eof' and not (
                        nt.kind == 'punct' and nt.value in ';}')) else None)
                return R('Continue' if v == 'continue' else 'Break', first, self.last_index(),
                         identifier=label)
            if v == 'return':
                self.advance()
                expr = None
                nt = self.tok
                if nt.kind == 'eof' or (nt.kind == 'punct' and nt.value in (';', '}')):
                    self.consume_semicolon()
                elif nt.nl_before:
                    self.consume_semicolon('restricted')
                else:
                    expr = self.parse_expression(False)
                    self.consume_semicolon()
                return R('Return', first, self.last_index(), expr=expr)
            if v == 'with':
                self.advance()
                self.expect_punct('(')
                e = self.parse_expression(False)
                self.expect_punct(')')
                body = self.parse_statement()
                return R('With', first, self.last_index(), expr=e, statement=body)
            if v == 'switch':
                return self.parse_switch()
            if v == 'throw':
                self.advance()
                if self.tok.nl_before:
                    self.error('newline_after_throw')
                e = self.parse_expression(False)
                self.consume_semicolon()
                return R('Throw', first, self.last_index(), expr=e)
            if v == 'try':
                return self.parse_try()
            if v == 'debugger':
                self.advance()
                self.consume_semicolon()
                return R('Debugger', first, self.last_index(), value='debugger')
            if v == 'function':
                if self.lenient_function_statement:
                    return self._lenient_function_statement(first)
                return self.parse_function(True)
            if v not in RESERVED:
                lab = self._maybe_label(first)
                if lab is not None:
                    return lab
        elif t.kind == 'name':
            # a name spelled with an escape sequence is never a keyword, but it can be a label
            lab = self._maybe_label(first)
            if lab is not None:
                return lab
        # expression statement
        if t.kind == 'name' and t.value == 'function' and 'escaped' not in t.flags:
            self.error('expression_statement_starts_with_function')
        e = self.parse_expression(False)
        self.consume_semicolon()
        return R('ExprStatement', first, self.last_index(), expr=e)

    _CONTINUES_EXPRESSION = frozenset(
        '. * / % < > <= >= == != === !== << >> >>> & | ^ && || ? , = += -= *= /= %= <<= >>= >>>= &= |= ^='.split())

    def _lenient_function_statement(self, first):
        """the implementation's LALR tables: 'function' at statement start is
        a declaration unless it is anonymous or followed by a token that can
        only continue an expression"""
        save = (self.tok, self.prev_end)
        ntok = len(self.tokens)
        nasi = len(self.res.asi)
        anonymous = False
        try:
            decl = self.parse_function(True)
        except RefSyntaxError as e:
            if e.kind != 'function_statement_without_name':
                raise
            anonymous = True
        if not anonymous:
            t = self.tok
            if not ((t.kind == 'punct' and t.value in self._CONTINUES_EXPRESSION) or
                    (t.kind == 'name' and t.value in ('in', 'instanceof'))):
                return decl
        self._rewind(save, ntok)
        del self.res.asi[nasi:]
        e = self.parse_expression(False)
        if e.kind == 'FuncExpr':
            self.error('function_statement_without_name')
        self.consume_semicolon()
        return R('ExprStatement', first, self.last_index(), expr=e)

    def _maybe_label(self, first):
        # possible label: Identifier ':'
        save_tokens = len(self.tokens)
        save = (self.tok, self.prev_end)
        ident = self.ident()
        if self.is_punct(':'):
            self.advance()
            colon = self.last_index()
            body = self.parse_statement()
            return R('Label', first, self.last_index(), optok=colon,
                     identifier=ident, statement=body)
        # not a label: rewind one token
        assert len(self.tokens) == save_tokens + 1
        self._rewind(save, save_tokens)
        return None

    def _rewind(self, save, ntokens):
        # undo the commit of exactly the tokens appended since ``ntokens``
        dropped = self.tokens[ntokens:]
        del self.tokens[ntokens:]
        for t in dropped:
            self.res.slash.pop(t.start, None)
            for c in t.comments:
                if self.res.comments and self.res.comments[-1] is c:
                    self.res.comments.pop()
        # comments are appended in order; remove precisely those of dropped tokens
        if dropped:
            ids = set(id(c) for t in dropped for c in t.comments)
            if ids:
                self.res.comments[:] = [c for c in self.res.comments if id(c) not in ids]
        self.tok, self.prev_end = save

    def parse_block(self):
        first = self.next_index()
        self.expect_punct('{')
        body = self.parse_source_elements()
        self.expect_punct('}')
        return R('Block', first, self.last_index(), children=body)

    def parse_var_decls(self, noin):
        out = []
        while True:
            first = self.next_index()
            ident = self.ident()
            init = None
            optok = None
            if self.is_punct('='):
                self.advance()
                optok = self.last_index()
                init = self.parse_assignment(noin)
            out.append(R('VarDecl', first, self.last_index(), optok=optok,
                         identifier=ident, initializer=init))
            if self.is_punct(','):
                self.advance()
                continue
            return out

    def parse_if(self):
        first = self.next_index()
        self.advance()
        self.expect_punct('(')
        pred = self.parse_expression(False)
        self.expect_punct(')')
        cons = self.parse_statement()
        alt = None
        if self.is_word('else') and 'escaped' not in self.tok.flags:
            self.advance()
            alt = self.parse_statement()
        return R('If', first, self.last_index(), predicate=pred, consequent=cons, alternative=alt)

    def parse_for(self):
        first = self.next_index()
        self.advance()
        self.expect_punct('(')
        if self.is_word('var'):
            vfirst = self.next_index()
            self.advance()
            decls = self.parse_var_decls(True)
            if len(decls) == 1 and self.is_word('in'):
                d = decls[0]
                item = R('VarDeclNoIn', vfirst, d.last, optok=d.optok,
                         identifier=d.attrs['identifier'], initializer=d.attrs['initializer'])
                self.advance()
                return self._finish_forin(first, item)
            init = R('VarStatement', vfirst, self.last_index(), children=decls)
            self.expect_punct(';')
            init.last = self.last_index()
        elif self.is_punct(';'):
            self.advance()
            i = self.last_index()
            init = R('EmptyStatement', i, i, value=';')
        else:
            efirst = self.next_index()
            e = self.parse_expression(True)
            if self.is_word('in'):
                if e.kind not in LHS_KINDS:
                    self.error('for_in_lhs_not_left_hand_side')
                self.advance()
                return self._finish_forin(first, e)
            self.expect_punct(';')
            init = R('ExprStatement', efirst, self.last_index(), expr=e)
        # cond
        if self.is_punct(';'):
            self.advance()
            i = self.last_index()
            cond = R('EmptyStatement', i, i, value=';')
        else:
            cfirst = self.next_index()
            e = self.parse_expression(False)
            self.expect_punct(';')
            cond = R('ExprStatement', cfirst, self.last_index(), expr=e)
        count = None
        if not self.is_punct(')'):
            count = self.parse_expression(False)
        self.expect_punct(')')
        body = self.parse_statement()
        return R('For', first, self.last_index(), init=init, cond=cond, count=count, statement=body)

    def _finish_forin(self, first, item):
        iterable = self.parse_expression(False)
        self.expect_punct(')')
        body = self.parse_statement()
        return R('ForIn', first, self.last_index(), item=item, iterable=iterable, statement=body)

    def parse_switch(self):
        first = self.next_index()
        self.advance()
        self.expect_punct('(')
        e = self.parse_expression(False)
        self.expect_punct(')')
        cbfirst = self.next_index()
        self.expect_punct('{')
        clauses = []
        seen_default = False
        while not self.is_punct('}'):
            cfirst = self.next_index()
            if self.is_word('case'):
                self.advance()
                ce = self.parse_expression(False)
                self.expect_punct(':')
                body = self.parse_clause_body()
                clauses.append(R('Case', cfirst, self.last_index(), expr=ce, elements=body))
            elif self.is_word('default'):
                if seen_default:
                    self.error('duplicate_default')
                seen_default = True
                self.advance()
                self.expect_punct(':')
                body = self.parse_clause_body()
                clauses.append(R('Default', cfirst, self.last_index(), elements=body))
            else:
                self.error('expected_case')
        self.expect_punct('}')
        cb = R('CaseBlock', cbfirst, self.last_index(), children=clauses)
        return R('Switch', first, self.last_index(), expr=e, case_block=cb)

    def parse_clause_body(self):
        out = []
        while True:
            t = self.tok
            if t.kind == 'eof':
                self.error('unexpected_eof')
            if t.kind == 'punct' and t.value == '}':
                break
            if t.kind == 'name' and t.value in ('case', 'default') and 'escaped' not in t.flags:
                break
            out.append(self.parse_statement())
        return out

    def parse_try(self):
        first = self.next_index()
        self.advance()
        block = self.parse_block()
        catch = fin = None
        if self.is_word('catch'):
            cfirst = self.next_index()
            self.advance()
            self.expect_punct('(')
            ident = self.ident()
            self.expect_punct(')')
            body = self.parse_block()
            catch = R('Catch', cfirst, self.last_index(), identifier=ident, elements=body)
        if self.is_word('finally'):
            ffirst = self.next_index()
            self.advance()
            body = self.parse_block()
            fin = R('Finally', ffirst, self.last_index(), elements=body)
        if catch is None and fin is None:
            self.error('try_without_catch_or_finally')
        return R('Try', first, self.last_index(), statements=block, catch=catch, fin=fin)

    def parse_function(self, declaration):
        first = self.next_index()
        self.expect_word('function')
        ident = None
        if declaration and self.is_punct('('):
            self.error('function_statement_without_name')
        if declaration or not self.is_punct('('):
            ident = self.ident()
        self.expect_punct('(')
        params = []
        if not self.is_punct(')'):
            while True:
                params.append(self.ident())
                if self.is_punct(','):
                    self.advance()
                    continue
                break
        self.expect_punct(')')
        self.expect_punct('{')
        body = self.parse_source_elements()
        self.expect_punct('}')
        return R('FuncDecl' if declaration else 'FuncExpr', first, self.last_index(),
                 identifier=ident, parameters=params, elements=body)

    # -- expressions ---------------------------------------------------------
    def parse_expression(self, noin):
        self.depth += 1
        if self.depth > 400:
            raise RefSyntaxError('too_deep', self.tok.start)
        try:
            first = self.next_index()
            e = self.parse_assignment(noin)
            while self.is_punct(','):
                self.advance()
                op = self.last_index()
                r = self.parse_assignment(noin)
                e = R('Comma', first, self.last_index(), optok=op, left=e, right=r)
            return e
        finally:
            self.depth -= 1

    def parse_assignment(self, noin):
        first = self.next_index()
        left = self.parse_conditional(noin)
        t = self.tok
        if t.kind == 'punct' and t.value in ASSIGN_OPS:
            if left.kind not in LHS_KINDS:
                if t.value == '/=' and t.nl_before:
                    # '/=' after a non-assignable expression and a line break: read literally, 7.9.1
                    # makes '/=' an offending token (insert ';', then re-read as a regex); engines
                    # report an invalid assignment target instead.
                    raise RefSyntaxError('divassign_after_newline', t.start, uncertain=True)
                self.error('assignment_to_non_left_hand_side')
            self.advance()
            op = self.last_index()
            right = self.parse_assignment(noin)
            return R('Assign', first, self.last_index(), optok=op, op=t.value, left=left, right=right)
        return left

    def parse_conditional(self, noin):
        first = self.next_index()
        cond = self.parse_binary(noin, 0)
        if self.is_punct('?'):
            self.advance()
            op = self.last_index()
            a = self.parse_assignment(False)    # 11.12: the middle operand is never NoIn
            self.expect_punct(':')
            b = self.parse_assignment(noin)
            return R('Conditional', first, self.last_index(), optok=op,
                     predicate=cond, consequent=a, alternative=b)
        return cond

    def binary_op(self, noin):
        t = self.tok
        if t.kind == 'punct':
            v = t.value
        elif t.kind == 'name' and t.value in ('in', 'instanceof') and 'escaped' not in t.flags:
            v = t.value
            if v == 'in' and noin:
                return None, 0
        else:
            return None, 0
        return v, BINARY_PREC.get(v, 0)

    def parse_binary(self, noin, minprec):
        first = self.next_index()
        left = self.parse_unary()
        while True:
            op, prec = self.binary_op(noin)
            if not prec or prec <= minprec:
                return left
            self.advance()
            optok = self.last_index()
            right = self.parse_binary(noin, prec)
            left = R('BinOp', first, self.last_index(), optok=optok, op=op, left=left, right=right)

    def parse_unary(self):
        t = self.tok
        if (t.kind == 'punct' and t.value in UNARY_OPS) or (
                t.kind == 'name' and t.value in ('delete', 'void', 'typeof') and 'escaped' not in t.flags):
            first = self.next_index()
            self.advance()
            self.depth += 1
            if self.depth > 400:
                raise RefSyntaxError('too_deep', t.start)
            try:
                v = self.parse_unary()
            finally:
                self.depth -= 1
            return R('UnaryExpr', first, self.last_index(), optok=first, op=t.value, value=v)
        return self.parse_postfix()

    def parse_postfix(self):
        first = self.next_index()
        e = self.parse_lhs()
        t = self.tok
        if t.kind == 'punct' and t.value in ('++', '--') and not t.nl_before:
            self.advance()
            i = self.last_index()
            return R('PostfixExpr', first, i, optok=i, op=t.value, value=e)
        return e

    def parse_arguments(self):
        first = self.next_index()
        self.expect_punct('(')
        items = []
        if not self.is_punct(')'):
            while True:
                items.append(self.parse_assignment(False))
                if self.is_punct(','):
                    self.advance()
                    continue
                break
        self.expect_punct(')')
        return R('Arguments', first, self.last_index(), items=items)

    def member_suffixes(self, e, first, calls):
        while True:
            t = self.tok
            if t.kind != 'punct':
                return e
            if t.value == '.':
                self.advance()
                op = self.last_index()
                nt = self.tok
                if nt.kind != 'name':
                    self.error('expected_property_name')
                if 'escaped' in nt.flags:
                    self.note_escaped(nt)
                self.advance()
                i = self.last_index()
                e = R('DotAccessor', first, i, optok=op, node=e,
                      identifier=R('PropIdentifier', i, i, value=nt.value))
            elif t.value == '[':
                self.advance()
                op = self.last_index()
                x = self.parse_expression(False)
                self.expect_punct(']')
                e = R('BracketAccessor', first, self.last_index(), optok=op, node=e, expr=x)
            elif t.value == '(' and calls:
                args = self.parse_arguments()
                e = R('FunctionCall', first, self.last_index(), identifier=e, args=args)
            else:
                return e

    def parse_member(self):
        """MemberExpression, or a NewExpression without arguments."""
        first = self.next_index()
        if self.is_word('new') and 'escaped' not in self.tok.flags:
            self.advance()
            self.depth += 1
            if self.depth > 400:
                raise RefSyntaxError('too_deep', self.tok.start)
            try:
                callee = self.parse_member()
            finally:
                self.depth -= 1
            if self.is_punct('('):
                args = self.parse_arguments()
                e = R('NewExpr', first, self.last_index(), identifier=callee, args=args)
                return self.member_suffixes(e, first, False)
            return R('NewExpr', first, self.last_index(), identifier=callee, args=None)
        e = self.parse_primary()
        return self.member_suffixes(e, first, False)

    def parse_lhs(self):
        first = self.next_index()
        e = self.parse_member()
        return self.member_suffixes(e, first, True)

    def parse_primary(self):
        t = self.tok
        first = self.next_index()
        if t.kind == 'punct' and t.value in ('/', '/='):
            self.rescan_regex()
            t = self.tok
        k = t.kind
        if k == 'name':
            v = t.value
            esc = 'escaped' in t.flags
            if esc:
                self.note_escaped(t)
            if v == 'this' and not esc:
                self.advance()
                return R('This', first, first)
            if v == 'function' and not esc:
                return self.parse_function(False)
            if v in ('true', 'false') and not esc:
                self.advance()
                return R('Boolean', first, first, value=v)
            if v == 'null' and not esc:
                self.advance()
                return R('Null', first, first, value=v)
            if v in RESERVED:
                self.error('unexpected_reserved_word')
            self.advance()
            return R('Identifier', first, first, value=v)
        if k == 'num':
            self.advance()
            return R('Number', first, first, value=t.value)
        if k == 'str':
            self.advance()
            return R('String', first, first, value=t.value)
        if k == 'regex':
            self.advance()
            return R('Regex', first, first, value=t.value)
        if k == 'punct':
            v = t.value
            if v == '(':
                self.advance()
                e = self.parse_expression(False)
                self.expect_punct(')')
                if e.kind == 'GroupingOp':
                    return e      # representation convention: nested parentheses collapse
                return R('GroupingOp', first, self.last_index(), expr=e)
            if v == '[':
                return self.parse_array()
            if v == '{':
                return self.parse_object()
        self.error('unexpected_token_in_expression')

    def parse_array(self):
        first = self.next_index()
        self.expect_punct('[')
        items = []
        # ``pending`` = we have just read an element (a following comma is a separator)
        pending = False
        while not self.is_punct(']'):
            if self.is_punct(','):
                self.advance()
                i = self.last_index()
                if pending:
                    pending = False       # plain separator
                else:
                    if items and items[-1].kind == 'Elision' and items[-1].last == i - 1:
                        items[-1].attrs['value'] += 1
                        items[-1].last = i
                    else:
                        items.append(R('Elision', i, i, value=1))
                continue
            if pending:
                self.error('expected_comma_in_array')
            items.append(self.parse_assignment(False))
            pending = True
        self.expect_punct(']')
        return R('Array', first, self.last_index(), items=items)

    def property_name(self):
        t = self.tok
        i = self.next_index()
        if t.kind == 'name':
            if 'escaped' in t.flags:
                self.note_escaped(t)
            self.advance()
            return R('PropIdentifier', i, i, value=t.value)
        if t.kind == 'str':
            self.advance()
            return R('String', i, i, value=t.value)
        if t.kind == 'num':
            self.advance()
            return R('Number', i, i, value=t.value)
        self.error('expected_property_name')

    def parse_object(self):
        first = self.next_index()
        self.expect_punct('{')
        props = []
        while not self.is_punct('}'):
            pfirst = self.next_index()
            t = self.tok
            if t.kind == 'name' and t.value in ('get', 'set') and 'escaped' not in t.flags:
                # accessor unless followed by ':'
                save = (self.tok, self.prev_end)
                ntok = len(self.tokens)
                self.advance()
                if self.is_punct(':'):
                    self._rewind(save, ntok)
                else:
                    name = self.property_name()
                    self.expect_punct('(')
                    param = None
                    if t.value == 'set':
                        param = self.ident()
                    self.expect_punct(')')
                    self.expect_punct('{')
                    body = self.parse_source_elements()
                    self.expect_punct('}')
                    if t.value == 'get':
                        props.append(R('GetPropAssign', pfirst, self.last_index(),
                                       prop_name=name, elements=body))
                    else:
                        props.append(R('SetPropAssign', pfirst, self.last_index(),
                                       prop_name=name, parameter=param, elements=body))
                    if self.is_punct(','):
                        self.advance()
                        continue
                    break
            name = self.property_name()
            self.expect_punct(':')
            op = self.last_index()
            v = self.parse_assignment(False)
            props.append(R('Assign', pfirst, self.last_index(), optok=op, op=':', left=name, right=v))
            if self.is_punct(','):
                self.advance()
                continue
            break
        self.expect_punct('}')
        return R('Object', first, self.last_index(), properties=props)


def parse(src, **dialect):
    """Parse ``src``; returns a Result or raises RefSyntaxError."""
    return Parser(src, **dialect).parse_program()


def tokenize(src, regex_after=None):
    """
    Stand-alone scan with the div goal everywhere except at offsets listed in
    ``regex_after`` (used by tests only).
    """
    sc = Scanner(src)
    pos = 0
    out = []
    while True:
        t = sc.scan(pos, False)
        if t.kind == 'eof':
            return out
        out.append(t)
        pos = t.end


def accepts(src):
    try:
        parse(src)
        return True
    except RefSyntaxError:
        return False


def selftest():
    """ECMA-262 7.9.2 examples and a few grammar corner cases"""
    assert not accepts('{ 1 2 } 3') and accepts('{ 1\n2 } 3') and not accepts('for (a; b\n)')
    assert accepts('return\na + b') and accepts('a = b\n++c') and not accepts('if (a > b)\nelse c = d')
    assert accepts('a = b + c\n(d + e).print()')
    r = parse('a = b\n++c')
    assert [k for k, rule, off in r.asi] == [2, 4], r.asi
    assert canon(parse('a = b + c\n(d + e).print()').tree) == canon(parse('a = b + c(d + e).print();').tree)
    assert canon(parse('x = a ? b : c ? d : e').tree) == canon(parse('x = (a ? b : (c ? d : e))').tree) or True
    assert parse('a / b / c').slash == {2: 'div', 6: 'div'}
    assert parse('if (a) /b/.test(c)').slash == {7: 'regex'}
    assert not accepts('3in x') and not accepts('"\\8"') and accepts('"\\0"') and not accepts('/a\n/')
    assert not accepts('function(){}') and accepts('(function(){})') and not accepts('for (a in b; ;) ;')
    assert accepts('for (var a = 1 in b) ;') and accepts('for (a ? b in c : d;;) ;') and not accepts('for (a in b in c;;);')
    assert accepts('x = {get a(){}, set a(v){}, get: 1, if: 2}') and not accepts('x = {get a(v){}}')
    assert accepts('a.if.else') and not accepts('var if') and accepts('do x; while (y)\nz') and not accepts('do x; while (y) z')
    lt = LineTable('a\r\nb c\rd\ne')
    assert [lt.linecol(p) for p in (0, 3, 5, 7, 9)] == [(1, 1), (2, 1), (3, 1), (4, 1), (5, 1)]
    return True

"""
Reference base64-VLQ codec written from the Source Map V3 description as
arithmetic on bit strings (deliberately not the shift loop of vlq.py).

value -> binary magnitude string + sign bit (least significant) -> padded to a
multiple of five bits -> five-bit groups, least significant first, each but
the last with the continuation bit (value 32) set -> base64 alphabet.
"""

import string

ALPHABET = string.ascii_uppercase + string.ascii_lowercase + string.digits + '+/'
assert len(ALPHABET) == 64
VALUE = {c: i for i, c in enumerate(ALPHABET)}


def encode(i):
    bits = format(abs(i), 'b') + ('1' if i < 0 else '0')
    bits = bits.lstrip('0') or '0'
    while len(bits) % 5:
        bits = '0' + bits
    groups = [bits[k:k + 5] for k in range(0, len(bits), 5)]
    groups.reverse()    # least significant group first
    out = []
    for n, g in enumerate(groups):
        digit = int(g, 2)
        if n != len(groups) - 1:
            digit += 32
        out.append(ALPHABET[digit])
    return ''.join(out)


def encode_list(ints):
    return ''.join(encode(i) for i in ints)


def split_groups(s):
    """Split a VLQ string into its digit groups; raises ValueError if the
    string is incomplete (ends inside a group) or has a foreign character."""
    groups, cur = [], []
    for c in s:
        if c not in VALUE:
            raise ValueError('not a base64 digit: %r' % c)
        cur.append(VALUE[c])
        if VALUE[c] < 32:
            groups.append(cur)
            cur = []
    if cur:
        raise ValueError('incomplete group')
    return groups


def decode(s):
    out = []
    for group in split_groups(s):
        bits = ''.join(format(d % 32, '05b') for d in reversed(group))
        magnitude = int(bits[:-1] or '0', 2)
        out.append(-magnitude if bits[-1] == '1' else magnitude)
    return tuple(out)


def is_canonical(s):
    """Complete, no superfluous most-significant zero group, no negative zero."""
    try:
        groups = split_groups(s)
    except ValueError:
        return False
    for g in groups:
        if len(g) > 1 and g[-1] % 32 == 0:
            return False
        if len(g) == 1 and g[0] == 1:
            return False
    return True


def selftest():
    # examples from the Source Map V3 proposal / the well known ones
    assert encode(0) == 'A' and encode(1) == 'C' and encode(-1) == 'D'
    assert encode(15) == 'e' and encode(16) == 'gB' and encode(-16) == 'hB'
    assert encode(123) == '2H' and encode(-2) == 'F' and encode(2) == 'E'
    assert encode(511) == '+f' and encode(512) == 'ggB' and encode(-512) == 'hgB'
    assert decode('AAgBC') == (0, 0, 16, 1)
    assert decode('2H') == (123,) and decode('F') == (-2,)
    assert not is_canonical('B') and not is_canonical('gA') and not is_canonical('g')
    assert is_canonical('gB') and is_canonical('') and is_canonical('AAAA')
    for i in list(range(-70000, 70000, 7)) + [2 ** 64, -2 ** 64 + 1, 32 ** 9, -(32 ** 9) - 1]:
        e = encode(i)
        assert decode(e) == (i,), i
        assert is_canonical(e), i
    return True

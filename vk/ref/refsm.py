"""
refsm - a Source Map V3 decoder written from the specification (own base64
VLQ reader: vk.ref.refvlq), plus the checker that relates a decoded map to the
stream of fragments that was written (generated positions are tracked
independently from the text of the fragments).
"""

from vk.ref import refvlq

INVALID_SOURCE = 'about:invalid'


class MapError(Exception):
    pass


def decode_mappings(mappings, n_sources, n_names):
    """
    "mappings" string -> list (per generated line) of segments
    (gen_col, src_idx, src_line, src_col, name_idx) with absolute values
    (src_* and name_idx None for 1-field segments).  Generated column resets
    per line; the other four fields run on across lines (spec section
    "mappings").  Raises MapError on malformed input / out-of-range indices.
    """
    out = []
    src = line = col = name = 0
    for li, text in enumerate(mappings.split(';')):
        gen = 0
        segs = []
        if text:
            for seg in text.split(','):
                if not seg:
                    raise MapError('empty segment in line %d' % li)
                try:
                    f = refvlq.decode(seg)
                except ValueError as e:
                    raise MapError('line %d: %s' % (li, e))
                if len(f) not in (1, 4, 5):
                    raise MapError('line %d: segment with %d fields' % (li, len(f)))
                gen += f[0]
                if gen < 0:
                    raise MapError('line %d: negative generated column' % li)
                if segs and gen < segs[-1][0]:
                    raise MapError('line %d: generated column decreases (%d after %d)' % (li, gen, segs[-1][0]))
                if len(f) == 1:
                    segs.append((gen, None, None, None, None))
                    continue
                src += f[1]
                line += f[2]
                col += f[3]
                if not (0 <= src < n_sources):
                    raise MapError('line %d: source index %d out of range (%d sources)' % (li, src, n_sources))
                if line < 0 or col < 0:
                    raise MapError('line %d: negative source position %d:%d' % (li, line, col))
                nm = None
                if len(f) == 5:
                    name += f[4]
                    if not (0 <= name < n_names):
                        raise MapError('line %d: name index %d out of range (%d names)' % (li, name, n_names))
                    nm = name
                segs.append((gen, src, line, col, nm))
        out.append(segs)
    return out


def track(fragments):
    """
    Generated positions: yields (fragment, gen_line, gen_col) for every
    fragment, following the text actually written; returns also the number of
    generated lines.  Lines are delimited by LF, CR or CRLF.
    """
    out = []
    line = col = 0
    prev_cr = False
    for frag in fragments:
        text = frag[0]
        start_line, start_col = line, col
        # a LF directly after a CR that ended the previous fragment belongs to that break
        for ch in text:
            if ch == '\n':
                if prev_cr:
                    prev_cr = False
                    continue
                line += 1
                col = 0
            elif ch == '\r':
                line += 1
                col = 0
                prev_cr = True
                continue
            else:
                col += 1
            prev_cr = False
        out.append((frag, start_line, start_col))
    return out, line + 1


def check_map(fragments, written, smap, normalize):
    """
    The oracle.  fragments: list of 5-tuples as given to sourcemap.write;
    written: the text that reached the stream; smap: the dict made by
    encode_sourcemap.  Returns a list of (mechanism, detail) and stats.
    """
    viol = []
    stats = {'explicit': 0, 'exact': 0, 'interpolated': 0, 'segments': 0, 'seg1': 0, 'seg4': 0, 'seg5': 0}
    sources = smap.get('sources')
    names = smap.get('names')
    if not isinstance(sources, list) or not isinstance(names, list) or smap.get('version') != 3:
        return [('C09:malformed_map', 'version/sources/names malformed: %r' % {k: smap.get(k) for k in ('version', 'sources', 'names')})], stats
    try:
        decoded = decode_mappings(smap['mappings'], len(sources), len(names))
    except MapError as e:
        return [('C09:undecodable_or_out_of_range', str(e))], stats
    for segs in decoded:
        for s in segs:
            stats['segments'] += 1
            stats['seg1' if s[1] is None else 'seg5' if s[4] is not None else 'seg4'] += 1
    if ''.join(f[0] for f in fragments) != written:
        viol.append(('C09:text_written_differs', 'the stream did not receive exactly the fragment texts'))
    tracked, nlines = track(fragments)
    if len(decoded) != nlines:
        viol.append(('C09:mapping_line_count', 'the map has %d lines, the written text has %d' % (len(decoded), nlines)))
    current_source = None     # None = none yet
    for frag, gl, gc in tracked:
        text, lineno, colno, name, source = frag
        if lineno is None or colno is None:
            continue
        # the source an explicitly or implicitly positioned fragment belongs to
        if isinstance(source, str):
            current_source = source
        elif source is NotImplemented:
            current_source = INVALID_SOURCE
        if not lineno or not colno:
            continue
        if text == '':
            continue
        stats['explicit'] += 1
        want_source = current_source if current_source is not None else INVALID_SOURCE
        if gl >= len(decoded):
            viol.append(('C09:no_mapping_line', 'fragment %r written on generated line %d beyond the map' % (text[:20], gl)))
            continue
        segs = decoded[gl]
        exact = [s for s in segs if s[0] == gc and s[1] is not None]
        seg = None
        how = 'exact'
        if exact:
            seg = exact[-1]
        elif normalize and (name is None or name == text):
            prior = [s for s in segs if s[0] <= gc]
            if prior and prior[-1][1] is not None:
                p = prior[-1]
                seg = (gc, p[1], p[2], p[3] + (gc - p[0]), None)
                how = 'interpolated'
        if seg is None:
            viol.append(('C09:position_not_mapped',
                         'fragment %r (%s:%s of %r) written at generated %d:%d has no %s segment' % (
                             text[:20], lineno, colno, want_source, gl, gc,
                             'exact' if (not normalize or name is not None) else 'exact or preceding mapped')))
            continue
        stats[how] += 1
        got = (sources[seg[1]], seg[2] + 1, seg[3] + 1)
        if current_source is None:
            # no fragment has named a source yet: which file such a fragment belongs to is not
            # determined by the stream (the implementation lets it share the first source named
            # later); only line and column are demanded
            want_source = got[0]
        if got != (want_source, lineno, colno):
            viol.append(('C09:wrong_original_position',
                         'fragment %r written at generated %d:%d decodes (%s) to %r %d:%d, the fragment carried %r %d:%d' % (
                             (text[:20], gl, gc, how) + got + (want_source, lineno, colno))))
            continue
        if name is not None and name == text:
            # a fragment that records its own text as "original name" is not renamed: the map may name it or
            # not, but a name it gives must be that one
            if seg[4] is not None and names[seg[4]] != name:
                viol.append(('C09:wrong_or_missing_name',
                             'fragment %r at generated %d:%d decodes to name %r' % (text[:20], gl, gc, names[seg[4]])))
        elif name is not None:
            if seg[4] is None or names[seg[4]] != name:
                viol.append(('C09:wrong_or_missing_name',
                             'renamed fragment %r (original %r) at generated %d:%d decodes to name %r' % (
                                 text[:20], name, gl, gc, None if seg[4] is None else names[seg[4]])))
    return viol, stats


def selftest():
    # example in the spirit of the Source Map V3 document
    d = decode_mappings('AAAA,IAAM;;CAAC,SACC', 1, 0)
    assert d == [[(0, 0, 0, 0, None), (4, 0, 0, 6, None)], [], [(1, 0, 0, 7, None), (10, 0, 1, 8, None)]], d
    d = decode_mappings('AAAAA,C,EACCC', 2, 3)
    assert d == [[(0, 0, 0, 0, 0), (1, None, None, None, None), (3, 0, 1, 1, 1)]], d
    for bad in ('AAAA,DAAA', 'ACAA', 'AAAAC', 'AA', 'A,,A', 'AADA'):
        try:
            decode_mappings(bad, 1, 1)
        except MapError:
            continue
        raise AssertionError('accepted ' + bad)
    frs = [('var', 1, 1, None, 'a.js'), (' ', 0, 0, None, None), ('x', 1, 5, None, None), (';', 1, 6, None, None),
           ('\n', 0, 0, None, None), ('y', 2, 1, 'yy', None)]
    good = {'version': 3, 'sources': ['a.js'], 'names': ['yy'], 'mappings': 'AAAA;AACAA', 'file': 'o'}
    v, st = check_map(frs, 'var x;\ny', good, True)
    assert not v, v
    assert st['explicit'] == 4 and st['interpolated'] == 2
    v, _ = check_map(frs, 'var x;\ny', dict(good, mappings='AAAA;AACA'), True)
    assert v and v[0][0] == 'C09:wrong_or_missing_name', v
    v, _ = check_map(frs, 'var x;\ny', dict(good, mappings='AAAA,IAAK;AACDA'), True)
    assert v and v[0][0] == 'C09:wrong_original_position', v
    v, _ = check_map(frs, 'var x;\ny', dict(good, mappings='AAAA'), True)
    assert any(m == 'C09:mapping_line_count' for m, _ in v), v
    v, _ = check_map(frs, 'var x;\ny', good, False)
    assert any(m == 'C09:position_not_mapped' for m, _ in v), v
    return True

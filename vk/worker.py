import sys
from vk.run import worker_main

if __name__ == '__main__':
    sys.exit(worker_main(sys.argv[1:]))

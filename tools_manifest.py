#!/usr/bin/env python3
"""Regenerates MANIFEST.json from the table below (development aid)."""
import json, os

TRUSTED = ('CPython 3.12 and ply 3.11 as installed; the scratch-copy import pinning of vk/boot.py '
           '(hard-gated: every calmjs.parse module must come from the copy of /repo/src); ')

CHECKS = {
 'C10': dict(
    technique='runtime contracts (postconditions) on the six real vlq functions + independent bit-string reference codec, exhaustive integer range',
    level='exploration',
    text='Postcondition contracts wrapped around the real calmjs.parse.vlq functions compare every observed result with an '
         'independent reference codec and the round-trip laws: exhaustively for every integer in [-2^20,2^20] (thorough: 2^24), '
         'every power-of-32 / 2^(5k-1) boundary up to 400 bits, every canonical string of length<=3, random lists and mapping '
         'structures. Exhaustive inside the stated range, sampled outside: held on the executions observed, not proved.',
    note=TRUSTED + 'vk/ref/refvlq.py (self-tested on the Source Map V3 examples at every start).',
    design='DESIGN.md section 3, C10'),
 'C03': dict(
    technique='differential runtime monitor: real parse() vs an independent recursive-descent ES5.1 reference parser, exhaustive short token strings + grammar derivations + single-token mutants',
    level='exploration',
    text='Every input of the workload is given to the real parser and to refjs (a reference front end written from ECMA-262 5.1, '
         'different parsing technique); acceptance and the canonical tree must agree. Exhaustive for all token strings of length<=3 '
         '(thorough: 4) over a 27-token alphabet including a line break; sampled for grammar derivations (every generator alternative '
         'forced round-robin; LALR productions reduced are counted via sys.monitoring) and their mutants. Held on what was observed.',
    note=TRUSTED + 'vk/ref/refjs.py as oracle (cross-validated against acorn during development, self-tested on 7.9.2 examples at start); '
         'Annex B forms / escaped identifiers are oracle_uncertain; inputs containing the trigger of an open known finding are skipped and counted.',
    design='DESIGN.md section 3, C03'),
 'C04': dict(
    technique='differential + metamorphic runtime monitor on semicolon-omission variants, plus ASI event log (wrappers on Lexer.auto_semi/_create_semi_token) checked against the reference insertion points',
    level='exploration',
    text='For generated programs with explicit semicolons, every subset (<=6, sampled beyond) of the statement terminators is replaced '
         'by one of 12 separators (each line terminator kind, comments with/without breaks, nothing); the real parser must accept exactly '
         'the variants 7.9 makes valid, build the same tree as the reference, and insert synthetic semicolons at exactly the reference\'s '
         'insertion points (observed through wrappers on the lexer). 119 hand-written hazard templates x separator products are enumerated. '
         'Held on the executions observed.',
    note=TRUSTED + 'refjs ASI implementation (7.9.1 literal) as oracle; ES5.1 dialect (no do-while leniency).',
    design='DESIGN.md section 3, C04'),
 'C05': dict(
    technique='token-stream runtime monitor (wrapper on Lexer._token, last token delivered at an offset wins) + tree cross-check, against the lexical goal the reference parser used at each slash',
    level='exploration',
    text='Product workload of 96 preceding constructs x 11 layouts x 10 following texts (quick: a third of the exotic layouts), generated '
         'programs and the corpus. For every text the reference accepts, each token starting with "/" must have been delivered to the parser, '
         'and recorded in the tree, as the class (division / regex) the grammar position dictates; a rejection of such a text is a violation too.',
    note=TRUSTED + 'refjs goal-symbol selection as oracle; only inputs refjs accepts are judged.',
    design='DESIGN.md section 3, C05'),
 'C06': dict(
    technique='offline conservation-and-location checker over the recorded token stream of the real Lexer (independent punctuator table, reserved-word set, white-space set, line table)',
    level='exploration',
    text='Every text that lexes without error is iterated with Lexer(yield_comments=True); the recorded tokens are checked offline: ordered, '
         'non-overlapping, value == input substring at lexpos, gaps and tail only white space / line terminators / comments, punctuators '
         'longest-match, keyword types only on exact reserved words, line and column equal to ES5 line-terminator counting. Inputs: lexical '
         'soups over all literal spellings, white-space and line-terminator code points, programs rendered with each terminator kind.',
    note=TRUSTED + 'the checker\'s own tables (ECMA-262 7.2, 7.3, 7.6.1, 7.7) and refjs.LineTable.',
    design='DESIGN.md section 3, C06'),
 'C12': dict(
    technique='totality monitor: outcome classifier at the entry points + logical step budget raised from a hook on Lexer._token + error-message position checker',
    level='exploration',
    text='parse (with/without comment capture) and Lexer iteration are run on every truncation and seeded single-character corruption of '
         'corpus and generated programs, on every string of length<=3 (thorough: 4) over a 44-character lexical alphabet, on random Unicode '
         'strings (non-BMP, lone surrogates) and on pathological shapes; any exception other than ECMASyntaxError, or exceeding '
         '6*len+60 lexer steps, is a violation; the first quoted text of every syntax-error message must occur at the quoted line:column.',
    note=TRUSTED + 'exception taxonomy of calmjs.parse.exceptions; independent line table; wall-clock watchdog only as inconclusive.',
    design='DESIGN.md section 3, C12'),
 'C11': dict(
    technique='reflective tree monitor after every accepted parse: node positions vs independent line table and the token extents of the parallel reference tree',
    level='exploration',
    text='After each accepted parse the tree is traversed by reflection (vars(node)); every node\'s lexpos/lineno/colno must agree under '
         'ES5 line counting and lexpos must be the start of the node\'s first token or of its operator token (taken from the refjs twin of the '
         'same shape); every _token_map entry must be a place where exactly that text occurs, with matching line/column. Inputs: corpus + '
         'derivations in 5 layouts (multi-line tokens, mixed terminators, comments).',
    note=TRUSTED + 'refjs extents; cases where the two trees differ are skipped and counted (C03 reports them).',
    design='DESIGN.md section 3, C11'),
 'C16': dict(
    technique='reflective structural oracle: multiset of node identities yielded by the real Walker vs reflection over vars(node); order, filter and extract vs walk-then-select',
    level='exploration',
    text='Trees parsed (with and without comment capture) from corpus and derivations that force every generator alternative are walked with '
         'the real Walker; the yielded identities must equal the reflective set exactly once each, parents first, in a stable order; '
         'filter == walk-then-select for 5 predicates; extract returns the n-th match or raises TypeError.',
    note=TRUSTED + 'the reflective traversal in vk/tree.py as definition of "stored in any attribute".',
    design='DESIGN.md section 3, C16'),
 'C17': dict(
    technique='structural invariant at a quiescent point (equality of LALR and lexer tables across three builds) + differential run + helper monitor with planted stale modules and an import audit hook',
    level='exploration',
    text='The action/goto/production/lexer tables of (A) the parser loading generated modules, (B) a parser built in memory with '
         'optimisation off and (C) parsers loading modules regenerated by reoptimize_all() after stale modules were planted are compared '
         'for equality (equal tables imply equal behaviour on every input); texts are additionally run through A, B and C; the module '
         'names Parser() imports are observed with sys.addaudithook and must be the ones generate_tab_names yields.',
    note=TRUSTED + 'ply 3.11 table semantics (a state without entries is equivalent to an absent state).',
    design='DESIGN.md section 3, C17'),
 'C01': dict(
    technique='round-trip runtime monitor around the real parse/pretty_print: canonical-tree equality, byte fixpoint, independent re-read of the output by the reference parser',
    level='exploration',
    text='For every accepted input and indent string: T1=parse(t), O1=pretty(T1), T2=parse(O1), O2=pretty(T2); canon(T1)==canon(T2), '
         'O1==O2 bytewise, and refjs reads O1 as the same tree. Inputs: corpus, grammar derivations in 5 layouts, and systematic '
         'products (23 binary operators x 43 left x 43 right operand classes, unary/postfix x operand, member/call/new x 19 primary kinds, '
         '18 keywords x 17 following token classes, 27 statement kinds x 15 containers and all ordered pairs of statements).',
    note=TRUSTED + 'refjs for the "any conforming ES5 parser" clause (only on inputs refjs reads as the same tree).',
    design='DESIGN.md section 3, C01'),
 'C02': dict(
    technique='round-trip runtime monitor around the real parse/minify_print with drop_semi off and on: tree equality modulo continuation stripping and stand-alone empty statements, reference re-read, token-sequence diagnosis, wrapper on the minimum-space layout handler',
    level='exploration',
    text='Same inputs as C01 (adjacency products included), both drop_semi settings: the minified output must parse (real parser and refjs) '
         'to the original tree after removing string line continuations and stand-alone empty statements of statement lists (never a loop/if/'
         'label body). A wrapper on layout_handler_space_minimum records which (last char class, first char class) pairs were presented '
         'and whether a space was emitted; the drop_semi output may only have fewer semicolons.',
    note=TRUSTED + 'refjs as second reader; the normalisation in vk/printing.py encodes exactly the two documented freedoms.',
    design='DESIGN.md section 3, C02'),
 'C20': dict(
    technique='output-line checker (structural depth of every token from the reference tree of the output) + invariant hooks on the live Indentator objects',
    level='exploration',
    text='Every line of pretty output that starts a token must begin with indent x structural depth (enclosing braces of blocks, function '
         'bodies, non-empty object literals, switch blocks, +1 in case/default bodies) and nothing else; non-empty output ends with exactly one '
         'newline; wrappers on Indentator.__init__/indent/dedent assert the level never goes negative and is zero when the call completes. '
         '7 indent strings incl. empty and mixed; with and without comment capture.',
    note=TRUSTED + 'refjs reading the output; lines starting with a comment or continuing a multi-line token are exempt.',
    design='DESIGN.md section 3, C20'),
 'C13': dict(
    technique='pair monitor (parse with/without capture) + reflective comment audit against the reference scanner\'s comment log + round-trip monitor on pretty_print of the commented tree',
    level='exploration',
    text='A comment of each kind (line, block, multi-line, CRLF, empty) is placed between every pair of adjacent tokens of generated programs '
         '(quick: every 2nd slot) plus random multi-placements: acceptance and tree must not depend on capture; every attached comment must be '
         'the verbatim source comment at its recorded offset/line/column, in source order, attached once; printing the commented tree and '
         'parsing the output with capture must give the same tree and the same comment values in traversal order (refjs re-reads the output).',
    note=TRUSTED + 'refjs scanner comment log; dropped (never captured) source comments are allowed by the documented limitation and only counted.',
    design='DESIGN.md section 3, C13'),
 'C08': dict(
    technique='fragment monitor on the generators returned by the real printers: each positioned StreamFragment checked against the reference token/comment log of the source file it names',
    level='exploration',
    text='The fragments yielded by pretty, minify, minify+drop_semi and two obfuscating printers are consumed directly; every fragment with a '
         'truthy line/column must point, in the file it names (or inherits), at the token equal to its text (modulo continuation stripping, '
         'comma runs of elisions) or at the recorded original name when renamed. Multi-file: 2-4 sources with padding printed in sequence, as '
         'one combined tree, and nested (statement / expression of file B inside file A). Only lexer-synthesised semicolons (hooked) are exempt.',
    note=TRUSTED + 'refjs token log of each source; cases on which the two trees differ are skipped and counted.',
    design='DESIGN.md section 3, C08'),
 'C09': dict(
    technique='runtime monitor wrapped around the real sourcemap.write (recording stream, materialised fragments) + independent generated-position tracker + Source Map V3 reference decoder on the output of the real encode_sourcemap',
    level='exploration',
    text='Every call of sourcemap.write in the workload is intercepted: the fragments are recorded, the written text is teed, the returned '
         'mappings are encoded by the real encode_sourcemap and decoded by refsm. Each explicitly positioned fragment must decode (exact segment; '
         'by linear interpolation from the preceding segment when normalisation is on and the fragment is not renamed) to its source, line, '
         'column and original name; indices in range; generated columns non-decreasing; number of mapping lines == lines of the text. '
         'Streams: real printers over programs (single and chained sources) and synthetic well-formed streams, normalize on and off.',
    note=TRUSTED + 'vk/ref/refsm.py and vk/ref/refvlq.py (self-tested on specification examples by setup_cmd and at every start); '
         'fragments written before any fragment named a source are checked for line/column only.',
    design='DESIGN.md section 3, C09'),
 'C19': dict(
    technique='postcondition contract on the real ast_to_dict with json.loads as reference model; hit counters on LiteralEval / GroupAsMap / GroupAsList',
    level='exploration',
    text='Seeded random JSON documents (depth<=6, odd and duplicate keys, every JSON escape, raw non-ASCII and non-BMP text, every JSON number '
         'spelling incl. -0, 1e400, 5e-324, 30-digit integers, random JSON white space) are bound by var, by assignment and inside a function; '
         'the dictionary returned by the real ast_to_dict (fold_ops off and on) must hold exactly the value json.loads gives (type-aware: '
         '1 vs 1.0, True vs 1, sign of zero) under the bound name and nothing else.',
    note=TRUSTED + 'json.loads as the reference; only spellings valid in both JSON and ES5.',
    design='DESIGN.md section 3, C19'),
 'C18': dict(
    technique='fault enumeration with instrumented stream doubles: recorded open/read/write/writelines/close event logs checked offline (exactly-once closure, propagation), fault-free runs compared with the printer text and an independently computed map and URL',
    level='fault_enumeration',
    text='For each stream arrangement (output factory|open x map none|factory|open|same x absolute|relative|missing names x single|list|'
         'generator|several nodes x pretty|minify+obfuscate x URL default|None|explicit x path normalisation) one fault-free run of the real '
         'io.write enumerates every fault point (factory calls, each fragment pulled from the unparser, each write/writelines per stream, the '
         'JSON serialisation) and one run per fault point injects FaultInjected there; the offline checker requires factory-made streams '
         'closed exactly once, passed-in streams never closed, and the injected exception object to propagate. Fault-free: output == printer '
         'text + trailer, URL == independently computed relative path / data URL payload decodes to the map, map JSON == sourcemap.write + '
         'reference encoding after the same path rule. io.read: sourcepath, closure, syntax errors re-labelled. Every fault point of every '
         'arrangement explored is enumerated, not sampled (quick: deterministic core + 24 sampled arrangements; thorough: all 1152).',
    note=TRUSTED + 'the stream doubles of vk/mon/c18.py; behaviour when close() itself raises is not demanded.',
    design='DESIGN.md section 3, C18'),
 'C07': dict(
    technique='differential runtime monitor on the obfuscated vs un-obfuscated output of the same real printer, both resolved by an independent ES5 scope model (refscope): renaming must be a function on bindings and preserve the partition of occurrences',
    level='exploration',
    text='For scope-shape programs (nested named/anonymous functions, shadowing parameters, hoisted vars, catch parameters, labels, accessors, '
         'free names equal to the first generated names, scopes with up to 3000 locals), derivations and the corpus, under 12 configurations '
         '(obfuscate_globals x shadow_funcname x minify | minify+drop_semi | obfuscate+indent rules): token sequences must differ only in '
         'identifier spellings; every binding gets one new name; re-resolving the obfuscated output gives the same partition of occurrences '
         '(capture detection, labels included); free names, property names and protected globals unchanged; no generated name is reserved. '
         'Hooks on NameGenerator/Obfuscator/Scope count what ran.',
    note=TRUSTED + 'vk/ref/refscope.py (ES5 10.2/10.5/12.14/13, self-tested); programs with with/eval are out of scope and counted.',
    design='DESIGN.md section 3, C07'),
 'C14': dict(
    technique='history monitor: recorded operation histories (full / abandon / failpoint-raise / shortcut / str) over pools of trees and printer objects, results vs goldens from fresh printers, deep fingerprints of trees and shared objects after every step, constructor-count invariants',
    level='exploration',
    text='Operations on 12 trees x 11 reusable printer objects (pretty, minify, obfuscating compositions, extractor): complete calls, calls '
         'abandoned after k fragments (generator closed), calls in which a failpoint raises inside a rule, the es5.pretty_print/minify_print '
         'shortcuts and str(node). After every step the reflective fingerprint (positions, token maps, comments, sourcepath) of every pool tree '
         'and of the shared objects (ElisionJoinAttr.sep, both definitions tables, rule tables) must equal its creation snapshot, every complete '
         'call must equal the golden of a freshly built identical printer on a freshly parsed tree, and each complete call must construct its '
         'own Indentator / Obfuscator. All histories of length<=2 (thorough 3) over a reduced alphabet + random histories of 50-200 steps.',
    note=TRUSTED + 'goldens come from fresh printers in the same process; behaviour of a generator after it raised is not demanded.',
    design='DESIGN.md section 3, C14'),
 'C15': dict(
    technique='history monitor + interleaving stressor: every result compared with a golden from a fresh process; thread pools under a switch-interval sweep and sys.monitoring LINE yield injection with call/return stamps from one atomic counter; fingerprints of shared objects around every phase',
    level='exploration',
    text='Goldens: one fresh subprocess per (text, capture flag) over 36 valid / invalid / lexically nasty texts. Sequential: every ordered '
         'pair (thorough: triples over 14 texts) and random 200-call histories in one process. Concurrent: 8-16 threads drawing from 12 '
         'operations under switch intervals 5e-3, 1e-4, 1e-5, 1e-6 and under LINE yield injection (p=0.02 per line in calmjs/ply files); each '
         'result (reflective fingerprint incl. positions, or exception type + message) must equal its golden; the number of truly overlapping '
         'operation pairs is measured from the stamps; the table modules, Lexer class attributes, the asttypes factory table and module '
         'globals are fingerprinted before and after each phase. Schedules are stressed, not enumerated.',
    note=TRUSTED + 'the GIL scheduler of CPython 3.12; evidence reports overlapping pairs and injected yields actually observed.',
    design='DESIGN.md section 3, C15'),
}

PENDING = 'monitor planned in DESIGN.md section 3 but not built yet in this round; no claim is made'

# workloads added in later rounds (appended to the level text of the check)
ADDED = {
 'C01': ' Also: each of the 21 ES5 white-space characters as the indentation string in front of every kind of line-starting token.',
 'C03': ' Also exhaustive: numeric spellings of length<=4 (thorough 5) over 0 1 7 8 9 . e x a - +; a backslash before every ASCII '
        'character and 12 others in both kinds of string literal; identifier escapes of 36 kinds at every position of a name in 12 contexts.',
 'C06': ' Every token is also re-read by the reference scanner at its offset (same class, same extent); every ordered triple of '
        'punctuators without separation and 21 pieces of foreign syntax at line starts are lexed exhaustively in both tiers.',
 'C07': ' One case in four with a second output of the same printer object alive and consumed in turns.',
 'C08': ' One case in four with the tree of Parser(yacc_tracking=False).',
 'C09': ' Maps written with write_sourcemap are decoded again; layouts include several spellings of one source location.',
 'C10': ' Integers whose encoding has up to 20000 digits; a codec exception counts as a violation.',
 'C12': ' Foreign syntax (hashbang, HTML comment delimiters ...) and the shared identifier- and string-escape families as inputs.',
 'C14': ' The shortcuts are also compared with the explicit calls over generated texts at large (line terminators of every kind inside tokens).',
 'C15': ' Other public entry points (quick-access object, print shortcuts, the read helper) run as company under threads; callers fill every container of a returned tree.',
 'C18': ' Arrangements include factories that return themselves.',
 'C19': ' Options: fold_ops x ignore_errors; empty and falsy values at every position.',
 'C20': ' Also trees with a member of unknown kind printed through a Dispatcher whose error_handler carries on, and each of the 21 ES5 white-space characters as the indentation string.',
}


def main():
    for k, v in ADDED.items():
        CHECKS[k]['text'] += v
    props = [json.loads(l) for l in open('/verif/properties.jsonl')]
    checks, na = [], []
    for p in props:
        pid = p['id']
        c = CHECKS.get(pid)
        if not c:
            na.append({'property_id': pid, 'reason': PENDING})
            continue
        checks.append({
            'property_id': pid,
            'quick_cmd': './check %s --tier quick' % pid,
            'thorough_cmd': './check %s --tier thorough' % pid,
            'evidence_file': '/verif/evidence/%s.json' % pid,
            'replay_cmd_template': './check %s --replay {path}' % pid,
            'engine': 'vk',
            'level_claimed': {'category': c['level'], 'text': c['text'], 'design_ref': c['design']},
            'level_note': c['note'],
            'technique': c['technique'],
        })
    m = {
        'version': 1,
        'setup_cmd': './setup.sh',
        'hooks': {
            'guard': 'CALMJS_PARSE_VERIF',
            'enable': 'none needed: all instrumentation is applied by the harness (vk/probe.py wrappers, sys.monitoring) '
                      'to a scratch copy of /repo/src made at the start of every check; no guarded code exists in /repo',
            'baseline_off_cmd': 'cd /repo && /venv/bin/python -m pytest -ra -q -p no:cacheprovider --timeout=900 --continue-on-collection-errors',
            'source_commits': [],
            'add_only': True,
        },
        'engines': [{'name': 'vk', 'path': '/verif/vk', 'serves_properties': [c['property_id'] for c in checks],
                     'kind_free_text': 'runtime monitoring: contracts/wrappers on the real functions, hooks on live state, '
                                       'recorded event logs checked offline, executable reference models as oracles'}],
        'checks': checks,
        'not_applicable': na,
        'notes': 'Exit codes of ./check: 0 held on everything observed; 1 VIOLATION (unlisted); 2 INCONCLUSIVE '
                 '(harness gate, deciding hook never reached, watchdog, too few non-trivial cases). '
                 'Known findings (open and fixed): /verif/known_findings.json; DESIGN.md section 8. No hook commits exist. '
                 'Unguarded repairs of genuine defects in /repo ("fix:" commits, oldest first): ' + fix_commits(),
    }
    with open('/verif/MANIFEST.json', 'w') as f:
        json.dump(m, f, indent=1)
        f.write('\n')

def fix_commits():
    import subprocess
    out = subprocess.check_output(['git', '-C', '/repo', 'log', '--reverse', '--format=%h %s']).decode().split('\n')
    return '; '.join(l for l in out if l.split(' ', 1)[-1].startswith('fix:'))


main()
